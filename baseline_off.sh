#!/bin/bash
# Build the repository with the verification guard OFF (plain CMake configuration) in a scratch directory
# and run the pinned suite (w2c2_test + w2c2wasi_test, 15 tests). Exit 0 iff all pass.
set -u
REPO="${W2C2_REPO:-/repo}"
B=$(mktemp -d /tmp/w2c2base-XXXXXX)
trap 'rm -rf "$B"' EXIT
cmake -S "$REPO" -B "$B" -G Ninja >"$B/cmake.log" 2>&1 || { cat "$B/cmake.log"; echo "BASELINE: cmake failed"; exit 1; }
cmake --build "$B" >"$B/build.log" 2>&1 || { tail -50 "$B/build.log"; echo "BASELINE: build failed"; exit 1; }
rc=0
"$B/w2c2/w2c2_test" > "$B/t1.log" 2>&1 || rc=1
"$B/wasi/w2c2wasi_test" > "$B/t2.log" 2>&1 || rc=1
cat "$B/t1.log" "$B/t2.log"
n=$(cat "$B/t1.log" "$B/t2.log" | grep -ci "ok\|pass\|==\|invalid as expected" || true)
if [ $rc -eq 0 ]; then echo "BASELINE: all test executables passed"; else echo "BASELINE: FAILED"; fi
exit $rc
