#!/bin/bash
# Prepare scratch worktrees for one round of independently written breaking changes (see DESIGN.md section 9):
#   tools_round.sh <round-number>    -> /tmp/seedwt/C<id>-r<round>/ with PROPERTY.txt and AVOID.txt (short names of earlier seeds only)
# The sub-agents get the property text and their own worktree, nothing from /verif.
r="$1"; mkdir -p /tmp/seedwt; git -C /repo worktree prune
for i in $(seq -w 1 20); do id=C$i; wt=/tmp/seedwt/$id-r$r
  git -C /repo worktree add --detach "$wt" >/dev/null 2>&1 || echo "worktree failed: $id"
  python3 - "$id" "$wt" <<'PY'
import json,sys,os
pid,wt=sys.argv[1:]
for l in open('/verif/properties.jsonl'):
    p=json.loads(l)
    if p['id']==pid:
        open(wt+'/PROPERTY.txt','w').write("Property %s: %s\n\n%s\n\nAnchors: %s\n"%(p['id'],p['title'],p['statement'],json.dumps(p.get('anchors',''))))
names=[n for n in os.listdir('/verif/seeded') if n.startswith(pid)]+[n[:-5] for n in os.listdir('/verif/mutants') if n.startswith(pid) and n.endswith('.diff')]
open(wt+'/AVOID.txt','w').write("Ideas already used for this property (do something different):\n"+"\n".join(sorted(set(names)))+"\n")
PY
done
ls /tmp/seedwt
