#!/usr/bin/env python3
"""Regenerates MANIFEST.json from the table below (keeps it schema-valid at all times)."""
import json, os, subprocess
HERE = os.path.dirname(os.path.abspath(__file__))
CHECKS = {}   # pid -> dict(category, text, note, technique, design_ref)
NA = {}       # pid -> reason
exec(open(os.path.join(HERE, 'manifest_table.py')).read())
def hooks_commits():
    try:
        out = subprocess.run(['git', '-C', '/repo', 'log', '--format=%h %s'], capture_output=True, text=True).stdout
        return [l.split()[0] for l in out.splitlines() if l.split(' ', 1)[1].startswith('verif hooks:')]
    except Exception:
        return []
m = {
 'version': 1,
 'setup_cmd': 'true',
 'hooks': {'guard': 'W2C2_VERIF', 'enable': 'checks compile the sources they need directly with -DW2C2_VERIF=1 (harness supplies w2c2VerifPoint); guard-off builds are used where the unmodified text is the object (C10, C20)',
           'baseline_off_cmd': './baseline_off.sh', 'source_commits': hooks_commits(), 'add_only': True},
 'engines': [
   {'name': 'check', 'path': 'check', 'serves_properties': sorted(CHECKS), 'kind_free_text': 'python driver: builds /repo working tree in a scratch dir, generates workloads, runs monitors (V8 differential, sanitizers, history checkers), writes evidence'},
 ],
 'checks': [],
 'not_applicable': [{'property_id': p, 'reason': r} for p, r in sorted(NA.items())],
 'notes': 'All checks: ./check <ID> --tier quick|thorough ; exit 0 held / 1 violation / 2 inconclusive. VERIF_SEED, VERIF_JOBS honoured. Known findings: known_findings.txt. Planted-break self-test: mutants/selftest.sh.',
}
for pid in sorted(CHECKS):
    c = CHECKS[pid]
    m['checks'].append({
      'property_id': pid,
      'quick_cmd': './check %s --tier quick' % pid,
      'thorough_cmd': './check %s --tier thorough' % pid,
      'evidence_file': 'evidence/%s.json' % pid,
      'replay_cmd_template': './check %s --replay {path}' % pid,
      'engine': 'check',
      'level_claimed': {'category': c['category'], 'text': c['text'], 'design_ref': c['design_ref']},
      'level_note': c['note'],
      'technique': c['technique'],
    })
json.dump(m, open(os.path.join(HERE, 'MANIFEST.json'), 'w'), indent=1)
print('MANIFEST.json: %d checks, %d not_applicable' % (len(m['checks']), len(m['not_applicable'])))
