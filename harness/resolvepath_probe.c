/* C14a: calls resolvePath() of wasi.c directly under ASan. Guest paths are NOT NUL terminated and sit flush against
 * the end of a heap block; the result buffer is a heap block of exactly PATH_MAX bytes. Oracle: a small model.
 * usage: resolvepath_probe <seed> <ncases>      prints a summary line and one line per violation */
#include <stdio.h>
#include <stdlib.h>
#include <string.h>
#include <limits.h>
#include "w2c2_base.h"
#include "wasi.h"
#ifndef PATH_MAX
#define PATH_MAX 1024
#endif
void trap(Trap t) { (void)t; abort(); }
wasmMemory* wasiMemory(void* i) { (void)i; return NULL; }
static unsigned long long s;
static unsigned rnd(void) { s ^= s << 13; s ^= s >> 7; s ^= s << 17; return (unsigned)(s >> 32); }
int main(int argc, char** argv) {
    long n = argc > 2 ? atol(argv[2]) : 1000, i, viol = 0, acc = 0, rej = 0, boundary = 0; long classes[8] = {0};
    s = (argc > 1 ? strtoull(argv[1], NULL, 0) : 1) * 0x9E3779B97F4A7C15ULL + 12345;
    for (i = 0; i < n; i++) {
        size_t dl, pl, j, total; int absolute, trailing; char *dir, *path, *result, expect[3 * PATH_MAX]; bool ok, fits;
        unsigned mode = rnd() % 10;
        /* directory length: mostly boundary-near */
        if (mode < 3) dl = 1 + rnd() % 40; else if (mode < 7) dl = PATH_MAX - 1 - rnd() % 24; else dl = 1 + rnd() % (PATH_MAX - 1);
        if (dl < 1) dl = 1; if (dl > PATH_MAX - 1) dl = PATH_MAX - 1;
        mode = rnd() % 10;
        if (mode < 2) pl = rnd() % 4; else if (mode < 6) { long want = (long)PATH_MAX - (long)dl - 4 + (long)(rnd() % 9); pl = want < 0 ? 0 : (size_t)want; }
        else if (mode < 8) pl = PATH_MAX - 3 + rnd() % 8; else pl = rnd() % (2 * PATH_MAX + 1);
        absolute = rnd() % 4 == 0; trailing = rnd() % 3 == 0;
        dir = (char*)malloc(dl + 1);
        dir[0] = '/'; for (j = 1; j < dl; j++) dir[j] = (char)('a' + rnd() % 26); if (trailing) dir[dl - 1] = '/'; dir[dl] = 0;
        path = (char*)malloc(pl ? pl : 1);           /* exactly pl bytes: any over-read hits the red zone */
        for (j = 0; j < pl; j++) { unsigned c = rnd() % 256; if (rnd() % 4) c = 'a' + c % 26; if (c == 0 && rnd() % 2) c = 1; path[j] = (char)c; }
        if (pl) { if (absolute) path[0] = '/'; else if (path[0] == '/') path[0] = 'x'; }
        result = (char*)malloc(PATH_MAX);
        memset(result, 0x5A, PATH_MAX);
        ok = resolvePath(dir, path, (U32)pl, result);
        /* model */
        if (pl == 0) { fits = false; total = 0; }
        else if (absolute) { total = pl; memcpy(expect, path, pl); fits = total < PATH_MAX; }
        else { size_t k = dl; memcpy(expect, dir, dl); if (dir[dl - 1] != '/') expect[k++] = '/'; memcpy(expect + k, path, pl); total = k + pl; fits = total < PATH_MAX; }
        classes[(pl == 0) ? 0 : absolute ? 1 : trailing ? 2 : 3]++;
        if (ok) {
            acc++;
            if (!fits) { printf("VIOL accepted-does-not-fit dl=%lu pl=%lu abs=%d\n", (unsigned long)dl, (unsigned long)pl, absolute); viol++; }
            else if (memcmp(result, expect, total) != 0 || result[total] != 0) { printf("VIOL wrong-result dl=%lu pl=%lu abs=%d trailing=%d\n", (unsigned long)dl, (unsigned long)pl, absolute, trailing); viol++; }
        } else {
            rej++;
            /* must accept when it fits with a margin of 2 bytes (one-byte conservatism at the limit is not judged) */
            if (fits && total + 2 < PATH_MAX) { printf("VIOL rejected-although-fits dl=%lu pl=%lu abs=%d total=%lu\n", (unsigned long)dl, (unsigned long)pl, absolute, (unsigned long)total); viol++; }
            else if (fits) boundary++;
        }
        free(dir); free(path); free(result);
    }
    printf("SUMMARY cases=%ld accepted=%ld rejected=%ld boundary_rejects=%ld violations=%ld empty=%ld absolute=%ld trailing=%ld plain=%ld\n",
           n, acc, rej, boundary, viol, classes[0], classes[1], classes[2], classes[3]);
    return viol ? 1 : 0;
}
