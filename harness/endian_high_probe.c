/* C19: accesses at effective addresses at and above 2^31 on a memory larger than 2 GiB (lazily committed), under both byte-order
 * settings (-DWASM_ENDIAN=1 forces the big-endian code paths). For every flavour group: store V at address A with the flavour's
 * store, print the raw bytes at A, read back with the loads of the same width, and run one RMW / cmpxchg.
 * checks/c19.py requires: identical returned values on both builds, raw bytes of the BE build = width-reversal of the LE build's.
 * Output: "A <addr hex> <name> <width> <returned hex> <raw bytes hex>"; "SKIP" if the memory cannot be reserved. */
#include <stdio.h>
#include <stdlib.h>
#include <string.h>
#include "w2c2_base.h"
void trap(Trap t) { (void)t; abort(); }
static wasmMemory* mem;
static void raw(U64 a, unsigned w) { unsigned i; for (i = 0; i < w; i++) printf("%02x", mem->data[a + i]); printf("\n"); }
#define OUT(name, w, ret) do { printf("A %llx %s %u %llx ", (unsigned long long)a, name, (unsigned)(w), (unsigned long long)(ret)); raw(a, w); } while (0)

int main(int argc, char** argv) {
    static const U64 addrs[] = { 0x7ffffff0ull, 0x7ffffff8ull, 0x80000000ull, 0x80000008ull, 0x80012340ull, 0x8000ffe0ull, 0x8001fff0ull };
    unsigned long long s = (argc > 1 ? strtoull(argv[1], NULL, 0) : 1) * 0x9E3779B97F4A7C15ULL + 99; unsigned k;
    mem = (wasmMemory*)calloc(1, sizeof(wasmMemory));
    mem->pages = 32770; mem->maxPages = 32770; mem->size = 32770ull * 65536ull > 0xffffffffull ? 0xffffffffu : (U32)(32770ull * 65536ull);
    mem->data = (U8*)calloc(32770ull * 65536ull, 1);
    if (!mem->data) { printf("SKIP\n"); return 0; }
    printf("ENDIAN %d\n", WASM_ENDIAN == WASM_BIG_ENDIAN);
    for (k = 0; k < sizeof addrs / sizeof addrs[0]; k++) {
        U64 a = addrs[k], v; s ^= s << 13; s ^= s >> 7; s ^= s << 17; v = s | 0x8000000000008080ull;
        /* width-homogeneous: every load/RMW follows a store of the SAME width (the forced-BE build on this LE host keeps a per-width
           byte-reversed image, so only same-width accesses are comparable) */
        i32_store(mem, a, (U32)v); OUT("i32_store", 4, 0); OUT("i32_load", 4, i32_load(mem, a)); OUT("i64_load32_s", 4, i64_load32_s(mem, a)); OUT("i64_load32_u", 4, i64_load32_u(mem, a));
        OUT("i32_atomic_rmw_add", 4, i32_atomic_rmw_add(mem, a, 0x01020304u)); OUT("i64_atomic_rmw32_sub_u", 4, i64_atomic_rmw32_sub_u(mem, a, 77)); OUT("i32_atomic_load", 4, i32_atomic_load(mem, a));
        i64_store32(mem, a, v >> 5); OUT("i64_store32", 4, 0); OUT("i32_load.b", 4, i32_load(mem, a));
        f32_store(mem, a, 2.25f + (float)k); OUT("f32_store", 4, 0); { F32 f = f32_load(mem, a); U32 u; memcpy(&u, &f, 4); OUT("f32_load", 4, u); }
        i64_store(mem, a, v); OUT("i64_store", 8, 0); OUT("i64_load", 8, i64_load(mem, a));
        i64_atomic_store(mem, a, v ^ 0x55); OUT("i64_atomic_store", 8, 0); OUT("i64_atomic_load", 8, i64_atomic_load(mem, a));
        OUT("i64_atomic_rmw_cmpxchg", 8, i64_atomic_rmw_cmpxchg(mem, a, i64_atomic_load(mem, a), v)); OUT("i64_atomic_rmw_xchg", 8, i64_atomic_rmw_xchg(mem, a, v * 3));
        f64_store(mem, a, 1.5 + (double)k); OUT("f64_store", 8, 0); { F64 d = f64_load(mem, a); U64 u; memcpy(&u, &d, 8); OUT("f64_load", 8, u); }
        i32_store16(mem, a, (U32)(v >> 3)); OUT("i32_store16", 2, 0); OUT("i32_load16_s", 2, i32_load16_s(mem, a)); OUT("i64_load16_u", 2, i64_load16_u(mem, a));
        OUT("i64_atomic_rmw16_xor_u", 2, i64_atomic_rmw16_xor_u(mem, a, 0x1234)); OUT("i32_atomic_load16_u", 2, i32_atomic_load16_u(mem, a));
        i64_store16(mem, a, v >> 9); OUT("i64_store16", 2, 0); OUT("i64_load16_s", 2, i64_load16_s(mem, a));
        i64_store8(mem, a, v >> 7); OUT("i64_store8", 1, 0); OUT("i32_load8_u", 1, i32_load8_u(mem, a)); OUT("i32_atomic_rmw8_xchg_u", 1, i32_atomic_rmw8_xchg_u(mem, a, 0x7e));
    }
    printf("DONE\n");
    return 0;
}
