/* C18: concurrent memory.grow / memory.size / loads / stores on one shared memory through the translated module "gm".
 * Threads run on child instances; every operation is logged at the client boundary (call seq, return seq) from one global
 * atomic counter into per-thread buffers; the merged history is printed and checked offline by checks/c18.py.
 * With the guard on, W2C2_VERIF_POINT(20) (between the size read and the lock in wasmMemoryGrow) yields/sleeps to widen windows.
 * usage: grow_stress <seed> <threads> <ops> <delaymode>      (module limits are fixed at build time: see c18.py) */
#include <stdio.h>
#include <stdlib.h>
#include <string.h>
#include <pthread.h>
#include <sched.h>
#include <unistd.h>
#include "w2c2_base.h"
#include "gm.h"
void trap(Trap t) { fprintf(stderr, "trap %d\n", (int)t); abort(); }
/* the real futex library is linked: wait / notify / atomic instructions of OTHER threads run while this memory is being grown */
#ifdef IMPORTED_MEM
static void* resolveMem(const char* module, const char* name) { static wasmMemory* m; (void)module; (void)name; if (!m) m = wasmMemoryAllocate(MEM_MIN, MEM_MAX, true); return m; }
#endif
#define MAXT 16
#define MAXOPS 4096
typedef struct { unsigned long long c, r; int op; unsigned arg, res; } Op;   /* op: 0 grow 1 size 2 store 3 load; 4 first load of a private cell
   in a page the thread has observed but never written (arg = page, must read 0: new pages are zeroed), 5 store to / 6 load from the private
   cell of an observed page (5: arg = value, res = page; 6: arg = expected value, res = loaded value);
   7 memory.atomic.wait32 with timeout 0 on a private cell (arg = 1 if the expected value equals the cell, res = return code: must be 2 / 1);
   8 memory.atomic.notify on a private cell nobody waits on (res must be 0); 9 i32.atomic.rmw.add 1 on the shared counter at address 32 (res = old) */
#define MAXPG 256
static Op ops[MAXT][MAXOPS]; static int nops[MAXT];
static unsigned long long seqc; static gmInstance parent; static gmInstance* child[MAXT];
/* spawns are serialised by the embedder here: every new family member re-applies the active data segment (plain stores of the same
   bytes into guest memory), which is guest-visible data, not the descriptor */
static pthread_mutex_t spawnMu = PTHREAD_MUTEX_INITIALIZER;
static int delayMode, extraChildren; static __thread unsigned long long rng; static __thread int tid = -1;
static unsigned rnd(void) { rng ^= rng << 13; rng ^= rng >> 7; rng ^= rng << 17; return (unsigned)(rng >> 32); }
#ifdef W2C2_VERIF
void w2c2VerifPoint(int id, long a, long b) { (void)a; (void)b;
  if (!delayMode || tid < 0) return;
  if (id == 20) { unsigned r = rnd() % 4; if (r == 0) sched_yield(); else if (r == 1) usleep(rnd() % 200); }
  else if (id == 21) { if (rnd() % 4 == 0) sched_yield(); } }
int w2c2VerifSpuriousWakeup(void) { return 0; }
#endif
static unsigned maxPages, initPages, nthreads, opsPer; static unsigned long long gseed;
static void* run(void* p) {
  int t = (int)(long)p; unsigned i; unsigned mine = 64u + (unsigned)t * 256u, last = 0; int stored = 0;
  unsigned observed = initPages; static __thread unsigned hval[MAXPG]; static __thread unsigned char hstate[MAXPG];  /* 0 untouched, 1 read as zero, 2 written */
  tid = t; rng = gseed * 0x9E3779B97F4A7C15ULL + ((unsigned long long)t + 1) * 0xD1B54A32D192ED03ULL; if (!rng) rng = 1;
  for (i = 0; i < opsPer && nops[t] < MAXOPS; i++) { Op* o = &ops[t][nops[t]++]; unsigned k = rnd() % 17;
    if (k == 16) { /* 10: memory.init of 8 bytes of the passive segment into private cells, read back (arg = expected word, res = word read);
                      every fourth time a further family member is created instead (its active segment is applied again) */
      unsigned wa = mine + 32u;
      if (rnd() % 4 == 0 && __atomic_load_n(&extraChildren, __ATOMIC_SEQ_CST) < 64) { wasmModuleInstance* from = (wasmModuleInstance*)child[t]; pthread_mutex_lock(&spawnMu); (void)from->newChild(from); pthread_mutex_unlock(&spawnMu); __atomic_add_fetch(&extraChildren, 1, __ATOMIC_SEQ_CST); }
      o->op = 10; o->arg = 0x44434241u; o->c = __atomic_add_fetch(&seqc, 1, __ATOMIC_SEQ_CST); gm_init(child[t], wa, 8u); o->res = gm_load(child[t], wa); o->r = __atomic_add_fetch(&seqc, 1, __ATOMIC_SEQ_CST);
      continue; }
    if (k >= 13) { unsigned wa = mine + 16u;
      if (k == 13) { unsigned eq = rnd() % 2, cur = gm_load(child[t], wa); o->op = 7; o->arg = eq; o->c = __atomic_add_fetch(&seqc, 1, __ATOMIC_SEQ_CST);
        o->res = gm_wait0(child[t], wa, eq ? cur : cur + 1u + rnd() % 5u); o->r = __atomic_add_fetch(&seqc, 1, __ATOMIC_SEQ_CST); if (rnd() % 3 == 0) gm_store(child[t], wa, rnd()); }
      else if (k == 14) { o->op = 8; o->arg = 1u + rnd() % 3u; o->c = __atomic_add_fetch(&seqc, 1, __ATOMIC_SEQ_CST); o->res = gm_notify(child[t], wa, o->arg); o->r = __atomic_add_fetch(&seqc, 1, __ATOMIC_SEQ_CST); }
      else { o->op = 9; o->arg = 1; o->c = __atomic_add_fetch(&seqc, 1, __ATOMIC_SEQ_CST); o->res = gm_aadd(child[t], 32u, 1u); o->r = __atomic_add_fetch(&seqc, 1, __ATOMIC_SEQ_CST); }
      continue; }
    if (k >= 10) { /* frontier accesses: only pages this thread itself has observed to exist (own grow result or memory.size) */
      unsigned pg, addr;
      if (observed <= initPages || observed > MAXPG) { k = rnd() % 10; }
      else { pg = (rnd() % 3) ? observed - 1 : initPages + rnd() % (observed - initPages); addr = pg * 65536u + 64u + (unsigned)t * 256u + 128u;
        if (hstate[pg] == 0) { o->op = 4; o->arg = pg; o->c = __atomic_add_fetch(&seqc, 1, __ATOMIC_SEQ_CST); o->res = gm_load(child[t], addr); o->r = __atomic_add_fetch(&seqc, 1, __ATOMIC_SEQ_CST); hstate[pg] = 1; }
        else if (hstate[pg] == 1 || rnd() % 2) { hval[pg] = rnd() | 1u; o->op = 5; o->arg = hval[pg]; o->res = pg; o->c = __atomic_add_fetch(&seqc, 1, __ATOMIC_SEQ_CST); gm_store(child[t], addr, hval[pg]); o->r = __atomic_add_fetch(&seqc, 1, __ATOMIC_SEQ_CST); hstate[pg] = 2; }
        else { o->op = 6; o->arg = hval[pg]; o->c = __atomic_add_fetch(&seqc, 1, __ATOMIC_SEQ_CST); o->res = gm_load(child[t], addr); o->r = __atomic_add_fetch(&seqc, 1, __ATOMIC_SEQ_CST); }
        continue; } }
    if (k < 4) { unsigned d; unsigned ch = rnd() % 8; d = ch == 0 ? 0 : ch < 4 ? 1 : ch == 4 ? 2 : ch == 5 ? 3 : ch == 6 ? maxPages + 1 : 0x10000u + rnd() % 7;
      o->op = 0; o->arg = d; o->c = __atomic_add_fetch(&seqc, 1, __ATOMIC_SEQ_CST); o->res = gm_grow(child[t], d); o->r = __atomic_add_fetch(&seqc, 1, __ATOMIC_SEQ_CST);
      if (o->res != 0xffffffffu && o->res + d > observed) observed = o->res + d; }
    else if (k < 7) { o->op = 1; o->arg = 0; o->c = __atomic_add_fetch(&seqc, 1, __ATOMIC_SEQ_CST); o->res = gm_size(child[t]); o->r = __atomic_add_fetch(&seqc, 1, __ATOMIC_SEQ_CST); if (o->res > observed) observed = o->res; }
    else if (k < 9) { last = rnd(); stored = 1; o->op = 2; o->arg = last; o->c = __atomic_add_fetch(&seqc, 1, __ATOMIC_SEQ_CST); gm_store(child[t], mine, last); o->res = 0; o->r = __atomic_add_fetch(&seqc, 1, __ATOMIC_SEQ_CST); }
    else { o->op = 3; o->arg = stored ? last : 0; o->c = __atomic_add_fetch(&seqc, 1, __ATOMIC_SEQ_CST); o->res = gm_load(child[t], mine); o->r = __atomic_add_fetch(&seqc, 1, __ATOMIC_SEQ_CST); }
  }
  return NULL;
}
int main(int argc, char** argv) {
  unsigned long long seed = argc > 1 ? strtoull(argv[1], NULL, 0) : 1; pthread_t th[MAXT]; unsigned t; int k;
  nthreads = argc > 2 ? (unsigned)atoi(argv[2]) : 4; opsPer = argc > 3 ? (unsigned)atoi(argv[3]) : 50; delayMode = argc > 4 ? atoi(argv[4]) : 1;
  if (nthreads > MAXT) nthreads = MAXT;
#ifdef IMPORTED_MEM
  gmInstantiate(&parent, resolveMem);      /* the shared memory belongs to the embedder and is imported by the module */
#else
  gmInstantiate(&parent, NULL);
#endif
  initPages = gm_mem(&parent)->pages; maxPages = gm_mem(&parent)->maxPages;
  /* an instance FAMILY, as thread-spawn builds it: some threads were spawned by the root, others by already spawned threads
     (children of children, up to a chain of three generations and more) */
  for (t = 0; t < nthreads; t++) { wasmModuleInstance* from = (t % 3 == 0 || t == 0) ? (wasmModuleInstance*)&parent : (wasmModuleInstance*)child[t - 1];
    child[t] = (gmInstance*)from->newChild(from); }
  gseed = seed;
  for (t = 0; t < nthreads; t++) pthread_create(&th[t], NULL, run, (void*)(long)t);
  for (t = 0; t < nthreads; t++) pthread_join(th[t], NULL);
  printf("INIT pages=%u max=%u final=%u threads=%u counter=%u\n", initPages, maxPages, gm_size(&parent), nthreads, gm_load(&parent, 32u));
  for (t = 0; t < nthreads; t++) for (k = 0; k < nops[t]; k++) printf("O %u %llu %llu %d %u %u\n", t, ops[t][k].c, ops[t][k].r, ops[t][k].op, ops[t][k].arg, ops[t][k].res);
  printf("DONE\n");
  return 0;
}
