/* Harness side of W2C2_VERIF_POINT for the translator executable (linked only into guard-on builds).
 * - ids 10..13: worker-pool hand-off. Delay injection (yield / short sleep) driven by W2C2_VERIF_SEED, only at these
 *   points, which all lie outside the writer's mutex.
 * - id 12 additionally logs (thread, prefix, fileIndex): the task -> thread assignment, dumped at exit to W2C2_VERIF_LOG.
 */
#include <stdio.h>
#include <stdlib.h>
#include <unistd.h>
#include <sched.h>
#include <pthread.h>

#define MAXEV 65536
static struct { int tid; int id; long a, b; } ev[MAXEV];
static int evn;
static int nthreads;
static __thread int mytid = -1;
static __thread unsigned long long rng;
static int inited;
static unsigned long long seed;
static int mode;

static void dump(void) {
    const char* p = getenv("W2C2_VERIF_LOG");
    FILE* f; int i, n = __atomic_load_n(&evn, __ATOMIC_SEQ_CST);
    if (!p) return;
    f = fopen(p, "w"); if (!f) return;
    if (n > MAXEV) n = MAXEV;
    for (i = 0; i < n; i++) fprintf(f, "%d %d %ld %ld\n", ev[i].tid, ev[i].id, ev[i].a, ev[i].b);
    fclose(f);
}

void w2c2VerifPoint(int id, long a, long b) {
    if (!__atomic_load_n(&inited, __ATOMIC_ACQUIRE)) {
        static pthread_mutex_t m = PTHREAD_MUTEX_INITIALIZER;
        pthread_mutex_lock(&m);
        if (!inited) {
            const char* s = getenv("W2C2_VERIF_SEED");
            const char* md = getenv("W2C2_VERIF_DELAY");
            seed = s ? strtoull(s, NULL, 0) : 0;
            mode = md ? atoi(md) : 1;
            atexit(dump);
            __atomic_store_n(&inited, 1, __ATOMIC_RELEASE);
        }
        pthread_mutex_unlock(&m);
    }
    if (mytid < 0) {
        mytid = __atomic_fetch_add(&nthreads, 1, __ATOMIC_SEQ_CST);
        rng = seed * 0x9E3779B97F4A7C15ULL + (unsigned long long)(mytid + 1) * 0xD1B54A32D192ED03ULL;
    }
    if (id == 12) {
        int k = __atomic_fetch_add(&evn, 1, __ATOMIC_SEQ_CST);
        if (k < MAXEV) { ev[k].tid = mytid; ev[k].id = id; ev[k].a = a; ev[k].b = b; }
    }
    if (mode) {
        unsigned r;
        rng ^= rng << 13; rng ^= rng >> 7; rng ^= rng << 17;
        r = (unsigned)(rng >> 33) % 8;
        if (r < 3) sched_yield();
        else if (r == 3) usleep((unsigned)(rng >> 20) % 300);
    }
}
