/* C19 (and C17's "wait examines the cell at its effective address"): the implicit 32/64-bit load inside
 * memory.atomic.wait32/wait64 is an atomic access of linear memory, so on a big-endian configuration it must apply the
 * same single byte reversal as i32.atomic.load / i64.atomic.load.
 * Built twice (host byte order, and -DWASM_ENDIAN=1) and linked with futex/{futex,list,map}.c of the tree under test.
 * For random values V: the cell is written with the configuration's own i32_store/i64_store (little-endian image), then
 *   wait(addr, V, 1 ms)           must block and time out  -> 2
 *   wait(addr, bswap(V), 1 ms)    must return at once      -> 1   (unless V is a byte palindrome)
 *   wait(addr, V ^ bit, 1 ms)     must return at once      -> 1
 * Output: one line per case "W <width> <V hex> <r_equal> <r_swapped> <r_flipped> <palindrome>"; identical on both builds.
 * usage: endian_wait_probe <seed> <cases> */
#include <stdio.h>
#include <stdlib.h>
#include <string.h>
#include "w2c2_base.h"
void trap(Trap t) { (void)t; abort(); }
static unsigned long long s;
static U64 rnd64(void) { s ^= s << 13; s ^= s >> 7; s ^= s << 17; return s; }
static U32 bs32(U32 v) { return (v >> 24) | ((v >> 8) & 0xff00u) | ((v << 8) & 0xff0000u) | (v << 24); }
static U64 bs64(U64 v) { return ((U64)bs32((U32)v) << 32) | bs32((U32)(v >> 32)); }

int main(int argc, char** argv) {
    int n = argc > 2 ? atoi(argv[2]) : 50, i;
    wasmMemory* mem = wasmMemoryAllocate(1, 1, true);
    s = (argc > 1 ? strtoull(argv[1], NULL, 0) : 1) * 0x9E3779B97F4A7C15ULL + 12345;
    printf("ENDIAN %d\n", WASM_ENDIAN == WASM_BIG_ENDIAN);
    for (i = 0; i < n; i++) {
        U64 x = rnd64(); int is64 = (int)(rnd64() & 1); U32 addr = (U32)(rnd64() % 8000) * 8; U32 r0, r1, r2;
        if (i % 7 == 0) x = (x & 0xff) * 0x0101010101010101ULL;          /* byte palindromes */
        if (i % 11 == 0) x = 1ULL << (rnd64() % 64);
        if (is64) {
            i64_store(mem, addr, x);
            r0 = wasmMemoryAtomicWait(mem, addr, x, 1000000, true);
            r1 = wasmMemoryAtomicWait(mem, addr, bs64(x), 1000000, true);
            r2 = wasmMemoryAtomicWait(mem, addr, x ^ (1ULL << (rnd64() % 64)), 1000000, true);
            printf("W 64 %llx %u %u %u %d\n", (unsigned long long)x, r0, r1, r2, bs64(x) == x);
        } else {
            U32 v = (U32)x;
            i32_store(mem, addr, v);
            i32_store(mem, addr ^ 4, ~v);                                  /* the neighbouring word must not matter */
            r0 = wasmMemoryAtomicWait(mem, addr, v, 1000000, false);
            r1 = wasmMemoryAtomicWait(mem, addr, bs32(v), 1000000, false);
            r2 = wasmMemoryAtomicWait(mem, addr, v ^ (1u << (rnd64() % 32)), 1000000, false);
            printf("W 32 %llx %u %u %u %d\n", (unsigned long long)v, r0, r1, r2, bs32(v) == v);
        }
    }
    printf("DONE\n");
    return 0;
}
