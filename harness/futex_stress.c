/* C17b: wait/notify protocol histories on a translated shared-memory module (exports of module "fx", see checks/c17.py).
 * Threads call the exported functions on child instances. Every call/return at the client boundary and, with the guard on,
 * the internal events inside the memory's mutex (waiter enqueued / dequeued(status), notify entered / left(count)) are
 * appended to lock-free per-thread buffers stamped from one global atomic counter; the merged log is printed and checked
 * offline by checks/c17.py. An in-process monitor detects quiescence (state invariant, not a timeout) and releases parked
 * waiters so the process always exits.
 * usage: futex_stress <seed> <scenario: 0 handshake | 1 free-for-all> <waiters> <notifiers> <naddrs> <delaymode>
 */
#include <stdio.h>
#include <stdlib.h>
#include <string.h>
#include <pthread.h>
#include <sched.h>
#include <unistd.h>
#include <time.h>
#include "w2c2_base.h"
#include "fx.h"
#include "map.h"

void trap(Trap t) { fprintf(stderr, "trap %d\n", (int)t); abort(); }

enum { WAIT_CALL = 1, WAIT_RET = 2, NOTIFY_CALL = 3, NOTIFY_RET = 4, ADD_CALL = 5, ADD_RET = 6, ENQ = 10, DEQ = 11, N_ENTER = 12, N_LEFT = 13 };
typedef struct { unsigned long long seq; int tid, kind; unsigned addr; unsigned long long a, b; } Ev;
#define MAXT 40
#define MAXEV 40000
static Ev* evs[MAXT]; static int evn[MAXT];
static unsigned long long seqCounter;
static __thread int myTid = -1;
static __thread unsigned long long myRng;
static int delayMode, spuriousMode;
static fxInstance parent; static fxInstance* child[MAXT];
static int inWait[MAXT]; static unsigned waitAddr[MAXT]; static unsigned long long waitExp[MAXT]; static long long waitTimeout[MAXT];
static int rescue, threadsLeft;

static void ev(int kind, unsigned addr, unsigned long long a, unsigned long long b) {
    int t = myTid; Ev* e;
    if (t < 0 || evn[t] >= MAXEV) return;
    e = &evs[t][evn[t]++];
    e->seq = __atomic_add_fetch(&seqCounter, 1, __ATOMIC_SEQ_CST); e->tid = t; e->kind = kind; e->addr = addr; e->a = a; e->b = b;
}
static unsigned rnd(void) { myRng ^= myRng << 13; myRng ^= myRng >> 7; myRng ^= myRng << 17; return (unsigned)(myRng >> 32); }

#ifdef W2C2_VERIF
void w2c2VerifPoint(int id, long a, long b) {
    switch (id) {
    case 31: ev(ENQ, (unsigned)a, 0, 0); return;
    case 32: ev(DEQ, (unsigned)a, (unsigned long long)b, 0); return;
    case 35: ev(N_ENTER, (unsigned)a, (unsigned long long)(unsigned)b, 0); return;
    case 36: ev(N_LEFT, (unsigned)a, (unsigned long long)(unsigned)b, 0); return;
    case 30: case 33: case 34: case 37:
        if (delayMode && myTid >= 0) { unsigned r = rnd() % 8; if (r < 3) sched_yield(); else if (r == 3) usleep(rnd() % 150); }
        return;
    default: return;
    }
}
int w2c2VerifSpuriousWakeup(void) { return spuriousMode && myTid >= 0 && (rnd() % 5) == 0; }
#endif

/* A SECOND, unrelated instance family with its own shared memory waits and notifies in the same process while the scenario runs (odd
   seeds): memories are independent objects, nothing one family does may be visible in the other's history. */
static fxInstance parent2; static fxInstance* child2[2]; static int noiseStop; static unsigned long noiseWaits, noiseNotifies, noiseBad;
static void* noiseMain(void* p) {
    int role = (int)(long)p; unsigned long long x = 88172645463325252ULL + (unsigned long long)role; unsigned a;
    while (!__atomic_load_n(&noiseStop, __ATOMIC_SEQ_CST)) {
        x ^= x << 13; x ^= x >> 7; x ^= x << 17; a = 4096u + (unsigned)(x % 4) * 8u;
        if (role == 0) { U32 cur = fx_load32(child2[0], a); U32 r = fx_wait32_o0(child2[0], a, cur, (U64)(200000 + x % 800000)); if (r > 2) noiseBad++; noiseWaits++; }
        else { fx_add32(child2[1], a, 1); if (fx_notify_o0(child2[1], a, 1 + (unsigned)(x % 2)) > 2) noiseBad++; noiseNotifies++; if (x % 3 == 0) sched_yield(); }
    }
    return NULL;
}

static long long nowNs(void) { struct timespec ts; clock_gettime(CLOCK_MONOTONIC, &ts); return (long long)ts.tv_sec * 1000000000LL + ts.tv_nsec; }

static U32 doWait(int t, unsigned addr, unsigned long long exp, long long timeout, int is64, int off) {
    U32 r; long long t0;
    ev(WAIT_CALL, addr + (unsigned)off, exp, (unsigned long long)timeout);
    waitAddr[t] = addr + (unsigned)off; waitExp[t] = exp; waitTimeout[t] = timeout; __atomic_store_n(&inWait[t], 1, __ATOMIC_SEQ_CST);
    t0 = nowNs();
    if (is64) r = off ? fx_wait64_o1024(child[t], addr, exp, (U64)timeout) : fx_wait64_o0(child[t], addr, exp, (U64)timeout);
    else r = off ? fx_wait32_o1024(child[t], addr, (U32)exp, (U64)timeout) : fx_wait32_o0(child[t], addr, (U32)exp, (U64)timeout);
    __atomic_store_n(&inWait[t], 0, __ATOMIC_SEQ_CST);
    ev(WAIT_RET, addr + (unsigned)off, r, (unsigned long long)(nowNs() - t0));
    return r;
}
static U32 doNotify(int t, unsigned addr, unsigned count, int off) {
    U32 r;
    ev(NOTIFY_CALL, addr + (unsigned)off, count, 0);
    r = off ? fx_notify_o1024(child[t], addr, count) : fx_notify_o0(child[t], addr, count);
    ev(NOTIFY_RET, addr + (unsigned)off, r, count);
    return r;
}
static U32 doAdd(int t, unsigned addr) {
    U32 old;
    ev(ADD_CALL, addr, 0, 0);
    old = fx_add32(child[t], addr, 1);
    ev(ADD_RET, addr, old + 1, 0);
    return old + 1;
}

/* finite timeouts far beyond any run (hours to centuries): must behave like "block until notified"; the values sit around the
   points where a seconds/nanoseconds conversion could wrap (2^32 s, 2^31 s, 2^63 ns) */
#define HUGE_NS 3600000000000LL
static long long hugeTimeout(unsigned long long x) {
    static const long long base[] = { 3600000000000LL, 4294967296LL * 1000000000LL, 2147483648LL * 1000000000LL, 8589934592LL * 1000000000LL,
                                      4611686018427387904LL, 9223372036854775807LL - 400000000LL, 4294967295LL * 1000000000LL, 86400LL * 365 * 1000000000LL };
    long long b = base[x % 8];
    return b + (long long)((x >> 8) % 400000000ULL);   /* plus up to 0.4 s */
}

/* every negative timeout means "never time out" (not only -1) */
static long long infiniteTimeout(unsigned long long x) {
    static const long long neg[] = { -1, -1, -1, -2, -1000000LL, -5000000000LL, -1099511627776LL, (-9223372036854775807LL - 1), -4294967296LL, -1000000001LL };
    return neg[x % 10];
}

typedef struct { int t, role, scenario, naddr; unsigned long long seed; unsigned* addrs; unsigned target; int iters; } TArg;

static void* threadMain(void* p) {
    TArg* a = (TArg*)p; int i;
    myTid = a->t; myRng = a->seed * 0x9E3779B97F4A7C15ULL + (unsigned long long)(a->t + 1) * 0xD1B54A32D192ED03ULL;
    if (a->scenario == 0) {
        if (a->role == 0) { /* waiter: canonical futex loop, infinite timeout, no rescue */
            unsigned addr = a->addrs[a->t % a->naddr];
            for (;;) { U32 e = fx_load32(child[a->t], addr); if (e >= a->target) break; doWait(a->t, addr, e, infiniteTimeout(rnd()), 0, 0); }
        } else { /* notifier */
            for (i = 0; i < (int)a->target; i++) { int k; for (k = 0; k < a->naddr; k++) { doAdd(a->t, a->addrs[k]); doNotify(a->t, a->addrs[k], 0xffffffffu, 0); }
                if (delayMode && rnd() % 3 == 0) sched_yield(); }
        }
    } else {
        if (a->role == 0) {
            for (i = 0; i < a->iters && !__atomic_load_n(&rescue, __ATOMIC_SEQ_CST); i++) {
                unsigned addr = a->addrs[rnd() % (unsigned)a->naddr]; int off = (rnd() % 4 == 0) ? 1024 : 0; int is64 = rnd() % 5 == 0;
                unsigned cur = fx_load32(child[a->t], addr + (unsigned)off);
                unsigned long long exp = cur; long long timeout; unsigned r = rnd() % 12;
                if (is64) { addr &= ~7u; cur = fx_load32(child[a->t], addr + (unsigned)off); exp = (unsigned long long)cur | ((unsigned long long)fx_load32(child[a->t], addr + (unsigned)off + 4) << 32); }
                if (rnd() % 5 == 0) exp = exp + 1 + rnd() % 3;      /* deliberately wrong expectation */
                timeout = r < 3 ? infiniteTimeout(rnd()) : r < 5 ? 0 : r < 8 ? (long long)(200000 + rnd() % 3000000) : r < 10 ? (long long)(rnd() % 50000) : hugeTimeout(rnd());
                doWait(a->t, addr, exp, timeout, is64, off);
            }
        } else {
            for (i = 0; i < a->iters; i++) {
                unsigned addr = a->addrs[rnd() % (unsigned)a->naddr]; int off = (rnd() % 4 == 0) ? 1024 : 0; unsigned r = rnd() % 6;
                if (rnd() % 2) doAdd(a->t, addr + (unsigned)off);
                doNotify(a->t, addr, r == 0 ? 0 : r == 1 ? 1 : r == 2 ? 2 : r == 3 ? 3 : 0xffffffffu, off);
                if (delayMode) { if (rnd() % 2) sched_yield(); else usleep(rnd() % 400); }
            }
        }
    }
    __atomic_sub_fetch(&threadsLeft, 1, __ATOMIC_SEQ_CST);
    return NULL;
}

typedef struct { ListLink link; int status; } WaitPrefix;
static int futexNodes(wasmMemory* m, int* emptyBuckets, int waitingOnly) {
    Map* map; size_t b; int n = 0;
    WASM_MUTEX_LOCK(&m->mutex);
    map = (Map*)m->futex;
    /* white-box: struct Wait in futex.c starts with { ListLink link; WaitStatus status; ... }; a node whose status is already
       Notified belongs to a waiter that has been woken but not yet scheduled - it is not parked */
    if (map) for (b = 0; b < map->bucketCount; b++) { MapNode* nd = map->buckets[b]; while (nd) { ListLink* l = (ListLink*)nd->value;
        while (l) { if (!waitingOnly || ((WaitPrefix*)l)->status == 0) n++; l = l->next; } nd = (MapNode*)nd->link.next; } }
    if (emptyBuckets) { *emptyBuckets = 1; if (map) for (b = 0; b < map->bucketCount; b++) if (map->buckets[b]) *emptyBuckets = 0; }
    WASM_MUTEX_UNLOCK(&m->mutex);
    return n;
}

int main(int argc, char** argv) {
    unsigned long long seed = argc > 1 ? strtoull(argv[1], NULL, 0) : 1; int scenario = argc > 2 ? atoi(argv[2]) : 0;
    int W = argc > 3 ? atoi(argv[3]) : 4, N = argc > 4 ? atoi(argv[4]) : 2, naddr = argc > 5 ? atoi(argv[5]) : 2, t, T, stable = 0, lastParked = -1, quiescentWithParked = 0, hang = 0, i;
    pthread_t th[MAXT], noise[2]; TArg args[MAXT]; unsigned addrs[8]; wasmMemory* mem; long long start; int empty = 0;
    delayMode = argc > 6 ? atoi(argv[6]) & 1 : 1; spuriousMode = argc > 6 ? (atoi(argv[6]) >> 1) & 1 : 1;
    if (W + N > MAXT - 1) return 2; if (naddr > 8) naddr = 8;
    T = W + N;
    fxInstantiate(&parent, NULL);
    mem = fx_mem(&parent);
    /* several generations: every third member is a child of the root, the others children of the previous member */
    for (t = 0; t < T + 1; t++) { wasmModuleInstance* from = (t % 3 == 0) ? (wasmModuleInstance*)&parent : (wasmModuleInstance*)child[t - 1];
        child[t] = (fxInstance*)from->newChild(from); evs[t] = (Ev*)calloc(MAXEV, sizeof(Ev)); }
    /* addresses: some collide in the 1024-bucket map (A, A+1024*4k), others do not; all 8-byte aligned */
    for (i = 0; i < naddr; i++) addrs[i] = 4096u + (unsigned)((i % 2) ? 1024u * 4u * (unsigned)i : 8u * (unsigned)i) + ((seed >> 3) % 4) * 2048u * 0u;
    /* depending on the seed some of the addresses lie in the second 64 KiB page (the memory has two), next to 2^16 and far into it */
    if (seed % 3 != 0) for (i = (int)(seed % 2); i < naddr; i += 2) addrs[i] = 65536u + (unsigned)(i * 8) + (unsigned)((seed >> 2) % 8) * 4096u;
    if (seed % 2) { fxInstantiate(&parent2, NULL); child2[0] = (fxInstance*)parent2.common.newChild((wasmModuleInstance*)&parent2); child2[1] = (fxInstance*)parent2.common.newChild((wasmModuleInstance*)&parent2);
        pthread_create(&noise[0], NULL, noiseMain, (void*)0L); pthread_create(&noise[1], NULL, noiseMain, (void*)1L); }
    threadsLeft = T;
    for (t = 0; t < T; t++) { args[t].t = t; args[t].role = t < W ? 0 : 1; args[t].scenario = scenario; args[t].naddr = naddr; args[t].seed = seed; args[t].addrs = addrs;
        args[t].target = 3 + (unsigned)(seed % 6); args[t].iters = 12 + (int)(seed % 20); pthread_create(&th[t], NULL, threadMain, &args[t]); }
    myTid = T; myRng = seed + 99;
    start = nowNs();
    /* monitor: wait for all threads, detecting quiescence as a state (everything left is parked inside wait with an infinite timeout) */
    while (__atomic_load_n(&threadsLeft, __ATOMIC_SEQ_CST) > 0) {
        int parked = 0, infinite = 1, left = __atomic_load_n(&threadsLeft, __ATOMIC_SEQ_CST), notifiersLeft = 0;
        usleep(2000);
        for (t = 0; t < W; t++) if (__atomic_load_n(&inWait[t], __ATOMIC_SEQ_CST)) { parked++; if (waitTimeout[t] >= 0 && waitTimeout[t] < HUGE_NS) infinite = 0; }
        (void)notifiersLeft;
        if (left > 0 && parked == left && infinite && futexNodes(mem, NULL, 1) == parked) { if (parked == lastParked) stable++; else stable = 0; lastParked = parked; }
        else { stable = 0; lastParked = -1; }
        if (stable >= 5) {
            /* quiescent: nobody else can act. In the handshake scenario this is a lost wake-up by construction. */
            if (scenario == 0) { quiescentWithParked = parked;
                for (t = 0; t < W; t++) if (__atomic_load_n(&inWait[t], __ATOMIC_SEQ_CST)) printf("PARKED tid=%d addr=%u expected=%llu cell=%u\n", t, waitAddr[t], waitExp[t], fx_load32(&parent, waitAddr[t])); }
            /* rescue: bump every cell and notify everybody until all threads are gone */
            __atomic_store_n(&rescue, 1, __ATOMIC_SEQ_CST);
            for (i = 0; i < naddr; i++) { int k; for (k = 0; k < 40; k++) doAdd(T, addrs[i]); doNotify(T, addrs[i], 0xffffffffu, 0); doAdd(T, addrs[i] + 1024); doNotify(T, addrs[i], 0xffffffffu, 1024); }
            stable = 0; lastParked = -1;
        }
        if (nowNs() - start > 60LL * 1000000000LL) { hang = 1; break; }
    }
    if (hang) { printf("HANG threadsLeft=%d\n", threadsLeft); fflush(stdout); _exit(3); }
    for (t = 0; t < T; t++) pthread_join(th[t], NULL);
    if (seed % 2) { __atomic_store_n(&noiseStop, 1, __ATOMIC_SEQ_CST); pthread_join(noise[0], NULL); pthread_join(noise[1], NULL);
        printf("NOISE waits=%lu notifies=%lu bad=%lu\n", noiseWaits, noiseNotifies, noiseBad); }
    { int nodes = futexNodes(mem, &empty, 0); printf("END nodes=%d buckets_empty=%d quiescent_parked=%d\n", nodes, empty, quiescentWithParked); }
    for (t = 0; t <= T; t++) { int k; for (k = 0; k < evn[t]; k++) { Ev* e = &evs[t][k]; printf("E %llu %d %d %u %llu %llu\n", e->seq, e->tid, e->kind, e->addr, e->a, e->b); }
        if (evn[t] >= MAXEV) printf("OVERFLOW tid=%d\n", t); }
    printf("DONE W=%d N=%d naddr=%d scenario=%d\n", W, N, naddr, scenario);
    return 0;
}
