/* C15 thread-spawn with SEVERAL modules in one process (translated with -m as ma, mb, mc).
 * Each module has a shared memory, imports wasi.thread-spawn, exports spawn(arg) and a number of (i32,i32)->() functions; one of
 * them may be named wasi_thread_start (at a module-specific position in the export table), the others are decoys with similar
 * names. Every such function atomically appends (marker, tid, arg) to a log in its module's memory.
 * usage: spawn_multi a:5 b:7 c:9 ...   (sequence of spawns: module letter, start argument)
 * Output: "S <mod> <arg> <ret>" per spawn, then "L <mod> <marker> <tid> <arg>" per log entry, then DONE. Checked by checks/c15.py. */
#include <stdio.h>
#include <stdlib.h>
#include <string.h>
#include <unistd.h>
#include "w2c2_base.h"
#include "wasi.h"
#include "ma.h"
#include "mb.h"
#include "mc.h"

#define LOGCNT 0x100
#define LOGBASE 0x1000

void trap(Trap t) { fprintf(stderr, "trap %d\n", (int)t); abort(); }
static maInstance A; static mbInstance B; static mcInstance C;
wasmMemory* wasiMemory(void* instance) { (void)instance; return ma_memory(&A); }
static void* resolve(const char* module, const char* name) { (void)module; (void)name; return NULL; }
/* with -m every module refers to its own imported-function symbols <module>_<import module>__<name>: forward them to the host */
U32 wasi__threadX2Dspawn(wasmModuleInstance* instance, U32 startArg);
U32 ma_wasi__threadX2Dspawn(void* i, U32 a) { return wasi__threadX2Dspawn((wasmModuleInstance*)i, a); }
U32 mb_wasi__threadX2Dspawn(void* i, U32 a) { return wasi__threadX2Dspawn((wasmModuleInstance*)i, a); }
U32 mc_wasi__threadX2Dspawn(void* i, U32 a) { return wasi__threadX2Dspawn((wasmModuleInstance*)i, a); }
#ifdef W2C2_VERIF
void w2c2VerifPoint(int id, long a, long b) { (void)id; (void)a; (void)b; }
int w2c2VerifSpuriousWakeup(void) { return 0; }
#endif

static U32 logCount(wasmMemory* m) { U32 v; __atomic_load((U32*)(m->data + LOGCNT), &v, __ATOMIC_SEQ_CST); return v; }
static U32 total(void) { return logCount(ma_memory(&A)) + logCount(mb_memory(&B)) + logCount(mc_memory(&C)); }

int main(int argc, char** argv) {
    int i; char* none[] = { NULL };
    if (!wasiInit(0, none, none)) return 2;
    maInstantiate(&A, resolve); mbInstantiate(&B, resolve); mcInstantiate(&C, resolve);
    for (i = 1; i < argc; i++) {
        char mod = argv[i][0]; U32 arg = (U32)strtoul(argv[i] + 2, NULL, 0); U32 ret, before = total(); int waited = 0;
        if (mod == 'a') ret = ma_spawn(&A, arg); else if (mod == 'b') ret = mb_spawn(&B, arg); else ret = mc_spawn(&C, arg);
        /* a successful spawn must produce exactly one log entry; wait for it (bounded), then a grace period for extras */
        if ((I32)ret > 0) while (total() == before && waited < 5000) { usleep(1000); waited++; }
        usleep(15000);
        printf("S %c %u %d\n", mod, arg, (int)(I32)ret);
    }
    for (i = 0; i < 3; i++) {
        wasmMemory* m = i == 0 ? ma_memory(&A) : i == 1 ? mb_memory(&B) : mc_memory(&C); U32 n = logCount(m), k;
        for (k = 0; k < n && k < 200; k++) { U32 e[3]; memcpy(e, m->data + LOGBASE + 12 * k, 12); printf("L %c %u %u %u\n", "abc"[i], e[0], e[1], e[2]); }
    }
    printf("DONE\n");
    fflush(stdout);
    _exit(0);   /* spawned threads are detached by design; do not run destructors under them */
}
