/* C07: sweep of the REAL literal writer (wasmCWriteLiteral of w2c2/c.c, reached by including the translation unit) over float
 * bit patterns: all 2^32 f32 patterns (thorough) or a strided / random subset, and large random + structured f64 samples.
 * For each pattern the emitted C text is evaluated the way a C compiler evaluates it in `sf<k>=<text>;`:
 *   decimal text without suffix = double literal (correctly rounded: strtod), converted to the slot type on assignment;
 *   decimal text with an f/F suffix = float literal (strtof); INFINITY; f32/f64_reinterpret_iNN(0x..); a leading '-' negates.
 * Patterns whose evaluated text differs from the pattern are printed ("M <type> <bits> <text>"); checks/c07.py then puts exactly
 * those constants through the real path (translate, gcc/clang, run) which decides. The sweep is a pre-filter with full coverage.
 * usage: literal_sweep <32|64> <first> <count> <stride> <mode: 0 = arithmetic progression, 1 = splitmix random from first> */
#include "c.c"
#include <stdint.h>

static int evalText(const char* text, int is64, uint64_t* bits) {
    const char* p = text; int neg = 0; char* end = NULL;
    if (*p == '-') { neg = 1; p++; }
    if (strncmp(p, "INFINITY", 8) == 0 && p[8] == 0) {
        if (is64) { double d = neg ? -INFINITY : INFINITY; memcpy(bits, &d, 8); } else { float f = neg ? -INFINITY : INFINITY; uint32_t u; memcpy(&u, &f, 4); *bits = u; }
        return 1;
    }
    if (strncmp(p, "f32_reinterpret_i32(0x", 22) == 0 || strncmp(p, "f64_reinterpret_i64(0x", 22) == 0) {
        uint64_t v = strtoull(p + 22, &end, 16);
        if (*end != ')' || end[1] != 0) return 0;
        if (p[1] == '3') { if (neg) v ^= 0x80000000u; *bits = v & 0xffffffffu; } else { if (neg) v ^= 0x8000000000000000ull; *bits = v; }
        return 1;
    }
    {   /* decimal (or hexadecimal floating) literal, optional f/F/l/L suffix */
        size_t n = strlen(p); char buf[128]; int suffixF = 0; double d; float f;
        if (n == 0 || n >= sizeof buf) return 0;
        memcpy(buf, p, n + 1);
        if (buf[n - 1] == 'f' || buf[n - 1] == 'F') { suffixF = 1; buf[n - 1] = 0; }
        else if (buf[n - 1] == 'l' || buf[n - 1] == 'L') { buf[n - 1] = 0; }
        if (suffixF) { f = strtof(buf, &end); d = f; } else { d = strtod(buf, &end); }
        if (end == buf || *end != 0) return 0;
        if (neg) d = -d;
        if (is64) { memcpy(bits, &d, 8); } else { uint32_t u; f = (float)d; memcpy(&u, &f, 4); *bits = u; }
        return 1;
    }
}

int main(int argc, char** argv) {
    int is64 = argc > 1 && atoi(argv[1]) == 64; uint64_t first = argc > 2 ? strtoull(argv[2], NULL, 0) : 0, count = argc > 3 ? strtoull(argv[3], NULL, 0) : 1000;
    uint64_t stride = argc > 4 ? strtoull(argv[4], NULL, 0) : 1; int mode = argc > 5 ? atoi(argv[5]) : 0; uint64_t i, x = first, mism = 0, unparsed = 0, special = 0;
    StringBuilder sb = emptyStringBuilder;
    if (!stringBuilderInitialize(&sb)) return 2;
    for (i = 0; i < count; i++) {
        uint64_t bits, got = 0; WasmValue v;
        if (mode == 0) bits = first + i * stride;
        else { uint64_t z = (x += 0x9E3779B97F4A7C15ull); z = (z ^ (z >> 30)) * 0xBF58476D1CE4E5B9ull; z = (z ^ (z >> 27)) * 0x94D049BB133111EBull; bits = z ^ (z >> 31); }
        if (!is64) bits &= 0xffffffffu;
        memset(&v, 0, sizeof v);
        if (is64) v.i64 = (I64)bits; else v.i32 = (I32)(U32)bits;
        if (!stringBuilderReset(&sb)) return 2;
        if (!wasmCWriteLiteral(&sb, is64 ? wasmValueTypeF64 : wasmValueTypeF32, v)) return 2;
        if (sb.string[0] == 'f' || sb.string[0] == 'I' || (sb.string[0] == '-' && (sb.string[1] == 'f' || sb.string[1] == 'I'))) special++;
        if (!evalText(sb.string, is64, &got)) { unparsed++; if (unparsed <= 50) printf("U %d %llx %s\n", is64 ? 64 : 32, (unsigned long long)bits, sb.string); continue; }
        if (got != bits) { mism++; if (mism <= 200) printf("M %d %llx %s\n", is64 ? 64 : 32, (unsigned long long)bits, sb.string); }
    }
    printf("DONE n=%llu mismatches=%llu unparsed=%llu special=%llu\n", (unsigned long long)count, (unsigned long long)mism, (unsigned long long)unparsed, (unsigned long long)special);
    return 0;
}
