/* C19: every memory access flavour of w2c2_base.h, run on a window X and on R(X) (bytes [a,a+w) reversed).
 * Built twice (host byte order, and -DWASM_ENDIAN=1 forcing the big-endian code paths on this little-endian host).
 * Relation checked by checks/c19.py: BE-build(F, X) == (ret, R(after)) of LE-build(F, R(X)).
 * Output: one line per (flavour, case, variant): name width kind addr variant ret window-bytes-hex
 * usage: endian_probe <seed> <cases> */
#include <stdio.h>
#include <stdlib.h>
#include <string.h>
#include "w2c2_base.h"
#include "buffer.h"
void trap(Trap t) { (void)t; abort(); }
static unsigned long long s;
static U64 rnd64(void) { s ^= s << 13; s ^= s >> 7; s ^= s << 17; return s; }
static wasmMemory* mem;
#define WIN 32
static U8 win0[WIN];
static void setWindow(int variant, unsigned a, unsigned w) { unsigned i; memcpy(mem->data + 64, win0, WIN);
  if (variant) for (i = 0; i < w / 2; i++) { U8 t = mem->data[64 + a + i]; mem->data[64 + a + i] = mem->data[64 + a + w - 1 - i]; mem->data[64 + a + w - 1 - i] = t; } }
static void out(const char* name, unsigned w, const char* kind, unsigned a, int variant, U64 ret) { int i;
  printf("%s %u %s %u %d %llx ", name, w, kind, a, variant, ret); for (i = 0; i < WIN; i++) printf("%02x", mem->data[64 + i]); printf("\n"); }
static F32 bf32(U32 u) { F32 f; memcpy(&f, &u, 4); return f; } static F64 bf64(U64 u) { F64 f; memcpy(&f, &u, 8); return f; }
static U32 fb32(F32 f) { U32 u; memcpy(&u, &f, 4); return u; } static U64 fb64(F64 f) { U64 u; memcpy(&u, &f, 8); return u; }

#define LOADCASE(fn, w, conv) for (v = 0; v < 2; v++) { setWindow(v, a % (WIN - 8), w); out(#fn, w, "load", a % (WIN - 8), v, (U64)conv(fn(mem, 64 + a % (WIN - 8)))); }
#define STORECASE(fn, w, val) for (v = 0; v < 2; v++) { setWindow(v, a % (WIN - 8), w); fn(mem, 64 + a % (WIN - 8), val); out(#fn, w, "store", a % (WIN - 8), v, 0); }
#define ALOADCASE(fn, w) for (v = 0; v < 2; v++) { unsigned aa = (a % (WIN - 8)) / (w / 8) * (w / 8); setWindow(v, aa, (w) / 8); out(#fn, w, "aload", aa, v, (U64)fn(mem, 64 + aa)); }
#define ASTORECASE(fn, w, val) for (v = 0; v < 2; v++) { unsigned aa = (a % (WIN - 8)) / (w / 8) * (w / 8); setWindow(v, aa, (w) / 8); fn(mem, 64 + aa, val); out(#fn, w, "astore", aa, v, 0); }
#define RMWCASE(fn, w, val) for (v = 0; v < 2; v++) { unsigned aa = (a % (WIN - 8)) / (w / 8) * (w / 8); U64 r_; setWindow(v, aa, (w) / 8); r_ = (U64)fn(mem, 64 + aa, val); out(#fn, w, "rmw", aa, v, r_); }
#define CASCASE(fn, w, T) for (v = 0; v < 2; v++) { unsigned aa = (a % (WIN - 8)) / (w / 8) * (w / 8); U64 r_; T cur_; setWindow(v, aa, (w) / 8); \
    cur_ = (T)fn(mem, 64 + aa, (T)x1, (T)x1);  /* first learn the current value (no change if it matches itself) */ \
    setWindow(v, aa, (w) / 8); r_ = (U64)fn(mem, 64 + aa, (k & 1) ? cur_ : (T)x1, (T)x2); out(#fn, w, (k & 1) ? "cas-match" : "cas-miss", aa, v, r_); }
#define ID(x) (x)

int main(int argc, char** argv) {
  long n = argc > 2 ? atol(argv[2]) : 50, k; int v, i;
  s = (argc > 1 ? strtoull(argv[1], NULL, 0) : 1) * 0x9E3779B97F4A7C15ULL + 99;
  mem = wasmMemoryAllocate(1, 1, true);
  printf("ENDIAN %d\n", WASM_ENDIAN);
  for (k = 0; k < n; k++) { unsigned a = (unsigned)(rnd64() % 64); U64 x1 = rnd64(), x2 = rnd64();
    for (i = 0; i < WIN; i++) win0[i] = (U8)(rnd64() >> 24);
    if (k % 7 == 0) { x1 = 0x0102030405060708ULL; x2 = 0xf1f2f3f4f5f6f7f8ULL; for (i = 0; i < WIN; i++) win0[i] = (U8)(0x80 + i); }
    LOADCASE(i32_load, 4, ID) LOADCASE(i64_load, 8, ID) LOADCASE(f32_load, 4, fb32) LOADCASE(f64_load, 8, fb64)
    LOADCASE(i32_load8_s, 1, ID) LOADCASE(i64_load8_s, 1, ID) LOADCASE(i32_load8_u, 1, ID) LOADCASE(i64_load8_u, 1, ID)
    LOADCASE(i32_load16_s, 2, ID) LOADCASE(i64_load16_s, 2, ID) LOADCASE(i32_load16_u, 2, ID) LOADCASE(i64_load16_u, 2, ID)
    LOADCASE(i64_load32_s, 4, ID) LOADCASE(i64_load32_u, 4, ID)
    STORECASE(i32_store, 4, (U32)x1) STORECASE(i64_store, 8, x1) STORECASE(f32_store, 4, bf32((U32)x1 & 0xff7fffffu)) STORECASE(f64_store, 8, bf64(x1 & 0xffefffffffffffffULL))
    STORECASE(i32_store8, 1, (U32)x1) STORECASE(i32_store16, 2, (U32)x1) STORECASE(i64_store8, 1, x1) STORECASE(i64_store16, 2, x1) STORECASE(i64_store32, 4, x1)
    ALOADCASE(i32_atomic_load8_u, 8) ALOADCASE(i64_atomic_load8_u, 8) ALOADCASE(i32_atomic_load16_u, 16) ALOADCASE(i64_atomic_load16_u, 16)
    ALOADCASE(i64_atomic_load32_u, 32) ALOADCASE(i32_atomic_load, 32) ALOADCASE(i64_atomic_load, 64)
    ASTORECASE(i32_atomic_store, 32, (U32)x1) ASTORECASE(i64_atomic_store, 64, x1) ASTORECASE(i32_atomic_store8, 8, (U32)x1) ASTORECASE(i32_atomic_store16, 16, (U32)x1)
    ASTORECASE(i64_atomic_store8, 8, x1) ASTORECASE(i64_atomic_store16, 16, x1) ASTORECASE(i64_atomic_store32, 32, x1)
#define RMWSET(op) RMWCASE(i32_atomic_rmw8_##op##_u, 8, (U32)x1) RMWCASE(i32_atomic_rmw16_##op##_u, 16, (U32)x1) RMWCASE(i32_atomic_rmw_##op, 32, (U32)x1) \
    RMWCASE(i64_atomic_rmw8_##op##_u, 8, x1) RMWCASE(i64_atomic_rmw16_##op##_u, 16, x1) RMWCASE(i64_atomic_rmw32_##op##_u, 32, x1) RMWCASE(i64_atomic_rmw_##op, 64, x1)
    RMWSET(add) RMWSET(sub) RMWSET(and) RMWSET(or) RMWSET(xor) RMWSET(xchg)
    CASCASE(i32_atomic_rmw8_cmpxchg_u, 8, U32) CASCASE(i32_atomic_rmw16_cmpxchg_u, 16, U32) CASCASE(i32_atomic_rmw_cmpxchg, 32, U32)
    CASCASE(i64_atomic_rmw8_cmpxchg_u, 8, U64) CASCASE(i64_atomic_rmw16_cmpxchg_u, 16, U64) CASCASE(i64_atomic_rmw32_cmpxchg_u, 32, U64) CASCASE(i64_atomic_rmw_cmpxchg, 64, U64)
    /* bulk byte operations: no reversal at all */
    { U8 seg[8]; for (i = 0; i < 8; i++) seg[i] = (U8)(x2 >> (8 * i));
      setWindow(0, 0, 1); LOAD_DATA(*mem, 64 + a % 20, seg, 8); out("LOAD_DATA", 1, "bulk", a % 20, 0, 0);
      setWindow(0, 0, 1); wasmMemoryCopy(mem, mem, 64 + a % 12, 64 + 16 + a % 8, 7); out("wasmMemoryCopy", 1, "bulk", a % 12, 0, 0);
      setWindow(0, 0, 1); wasmMemoryFill(mem, 64 + a % 20, (U32)x1, 9); out("wasmMemoryFill", 1, "bulk", a % 20, 0, 0); }
    /* swap helpers */
    { unsigned short hs = (unsigned short)x1; unsigned int hi = (unsigned int)x1; unsigned long long hq = x1; float hf = bf32((U32)x1 & 0xff7fffffu); double hd = bf64(x1 & 0xffefffffffffffffULL); short ss = (short)x1; int ii = (int)x1; long long qq = (long long)x1;
      swap_S(&hs); swap_I(&hi); swap_Q(&hq); swap_f(&hf); swap_d(&hd); swap_s(&ss); swap_i(&ii); swap_q(&qq);
      printf("SWAP %llx S=%x I=%x Q=%llx f=%x d=%llx s=%x i=%x q=%llx\n", x1, (unsigned)hs, hi, hq, fb32(hf), fb64(hd), (unsigned)(unsigned short)ss, (unsigned)ii, (unsigned long long)qq); }
    /* translator-side immediates reader */
    { U8 raw[8]; Buffer b; I32 r32 = 0; I64 r64 = 0; for (i = 0; i < 8; i++) raw[i] = (U8)(x2 >> (8 * i));
      b.data = raw; b.length = 8; if (!bufferReadF32(&b, &r32)) r32 = -1; b.data = raw; b.length = 8; if (!bufferReadF64(&b, &r64)) r64 = -1;
      printf("BUF %llx f32=%x f64=%llx\n", x2, (unsigned)r32, (unsigned long long)r64); }
  }
  printf("DONE\n");
  return 0;
}
