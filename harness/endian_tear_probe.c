/* C19 (with C16's atomicity): the atomic accessors of w2c2_base.h under BOTH byte-order settings and BOTH compilers, across threads.
 * -DWASM_ENDIAN=1 forces the big-endian code paths on this host (memory then holds a per-width byte-reversed image, which is
 * irrelevant here: only values that pass through the accessors are judged).
 *   tear:  one writer alternates atomic stores of two patterns whose bytes all differ; readers atomic-load concurrently. Every
 *          loaded value must be one of the two patterns or the initial zero ("T <width> <value>" lines report anything else).
 *   count: N threads x K atomic rmw.add(1) on one cell per width (8/16/32/64, i32 and i64 flavours): the returned old values must be
 *          a permutation of 0..N*K-1 (modulo the width) and the final value N*K; rmw.sub / xchg / cmpxchg loops likewise conserve.
 * usage: endian_tear_probe <seed> <rounds>     output: lines "T ..." / "C ..." for failures, then "DONE torn=<n> count_bad=<n> loads=<n>" */
#include <stdio.h>
#include <stdlib.h>
#include <string.h>
#include <pthread.h>
#include "w2c2_base.h"
void trap(Trap t) { (void)t; abort(); }
static wasmMemory* mem;
static volatile int stop;
static unsigned long torn, countBad, loads;
static pthread_mutex_t outMu = PTHREAD_MUTEX_INITIALIZER;
static const U64 P0 = 0x0102030405060708ull, P1 = 0xf1f2f3f4f5f6f7f8ull;
static unsigned long rounds = 200000;
#define A16 0x100
#define A32 0x200
#define A64 0x300

static void* writer(void* arg) {
    unsigned long i; (void)arg;
    for (i = 0; i < rounds; i++) {
        U64 p = (i & 1) ? P1 : P0;
        i64_atomic_store(mem, A64, p); i32_atomic_store(mem, A32, (U32)p); i32_atomic_store16(mem, A16, (U32)(p & 0xffff));
        i64_atomic_store32(mem, A32 + 8, p & 0xffffffffu); i64_atomic_store16(mem, A16 + 8, p & 0xffff);
    }
    stop = 1;
    return NULL;
}
static void bad(unsigned w, const char* what, U64 v) {
    pthread_mutex_lock(&outMu); torn++; if (torn <= 20) printf("T %u %s 0x%llx\n", w, what, (unsigned long long)v); pthread_mutex_unlock(&outMu);
}
static void* reader(void* arg) {
    unsigned long n = 0; (void)arg;
    while (!stop) {
        U64 v = i64_atomic_load(mem, A64); U32 x = i32_atomic_load(mem, A32); U32 h = i32_atomic_load16_u(mem, A16);
        U64 y = i64_atomic_load32_u(mem, A32 + 8), z = i64_atomic_load16_u(mem, A16 + 8);
        if (v != 0 && v != P0 && v != P1) bad(64, "i64.atomic.load", v);
        if (x != 0 && x != (U32)P0 && x != (U32)P1) bad(32, "i32.atomic.load", x);
        if (h != 0 && h != (P0 & 0xffff) && h != (P1 & 0xffff)) bad(16, "i32.atomic.load16_u", h);
        if (y != 0 && y != (P0 & 0xffffffffu) && y != (P1 & 0xffffffffu)) bad(32, "i64.atomic.load32_u", y);
        if (z != 0 && z != (P0 & 0xffff) && z != (P1 & 0xffff)) bad(16, "i64.atomic.load16_u", z);
        /* read-modify-writes that change nothing (or 0, add 0, xor 0, and all-ones), racing the writer's plain atomic stores: the value
           they return is one of the stored patterns too (whether or not the host implements the RMW with a lock) */
        { U64 a = i64_atomic_rmw_or(mem, A64, 0); U32 b = i32_atomic_rmw_add(mem, A32, 0); U32 c = i32_atomic_rmw16_xor_u(mem, A16, 0); U64 d = i64_atomic_rmw32_and_u(mem, A32 + 8, 0xffffffffu);
          if (a != 0 && a != P0 && a != P1) bad(64, "i64.atomic.rmw.or(0)", a);
          if (b != 0 && b != (U32)P0 && b != (U32)P1) bad(32, "i32.atomic.rmw.add(0)", b);
          if (c != 0 && c != (P0 & 0xffff) && c != (P1 & 0xffff)) bad(16, "i32.atomic.rmw16.xor_u(0)", c);
          if (d != 0 && d != (P0 & 0xffffffffu) && d != (P1 & 0xffffffffu)) bad(32, "i64.atomic.rmw32.and_u(~0)", d); }
        n += 9;
    }
    pthread_mutex_lock(&outMu); loads += n; pthread_mutex_unlock(&outMu);
    return NULL;
}

#define NT 4
#define K 20000
static unsigned char* seen[8];
static void cbad(const char* what, U64 v) {
    pthread_mutex_lock(&outMu); countBad++; if (countBad <= 20) printf("C %s 0x%llx\n", what, (unsigned long long)v); pthread_mutex_unlock(&outMu);
}
static void mark(int cell, U64 old, U64 mod, const char* what) {
    /* each thread's returned values are recorded in a shared bitmap with an atomic test-and-set per entry */
    U64 idx = old % mod; unsigned char prev;
    if (mod < (U64)NT * K) return;       /* narrow cells wrap: only conservation of the final value is checked */
    prev = __atomic_exchange_n(&seen[cell][idx], 1, __ATOMIC_SEQ_CST);
    if (prev) cbad(what, old);
}
static void* counter(void* arg) {
    int k; (void)arg;
    for (k = 0; k < K; k++) {
        mark(0, i32_atomic_rmw_add(mem, 0x400, 1), 1ull << 32, "i32.atomic.rmw.add returned a value twice");
        mark(1, i64_atomic_rmw_add(mem, 0x408, 1), ~0ull, "i64.atomic.rmw.add returned a value twice");
        mark(2, i32_atomic_rmw16_add_u(mem, 0x410, 1), 1u << 16, "i32.atomic.rmw16.add_u");
        mark(3, i64_atomic_rmw32_add_u(mem, 0x418, 1), 1ull << 32, "i64.atomic.rmw32.add_u returned a value twice");
        (void)i32_atomic_rmw8_add_u(mem, 0x420, 1);
        (void)i64_atomic_rmw_sub(mem, 0x428, 0x0101010101010101ull);      /* borrows ripple through every byte */
        {   /* increment through a cmpxchg loop */
            U32 o; do { o = i32_atomic_load(mem, 0x430); } while (i32_atomic_rmw_cmpxchg(mem, 0x430, o, o + 0x01010101u) != o);
        }
        {   U64 o; do { o = i64_atomic_load(mem, 0x438); } while (i64_atomic_rmw_cmpxchg(mem, 0x438, o, o + 0x0100010001000100ull) != o); }
        {   U32 o; do { o = i32_atomic_load16_u(mem, 0x440); } while (i32_atomic_rmw16_cmpxchg_u(mem, 0x440, o, (o + 0x0101u) & 0xffffu) != o); }
    }
    return NULL;
}

int main(int argc, char** argv) {
    pthread_t w, r[3], c[NT]; int i; U64 n = (U64)NT * K;
    if (argc > 2) rounds = strtoul(argv[2], NULL, 0);
    mem = wasmMemoryAllocate(1, 1, true);
    memset(mem->data, 0, 65536);
    for (i = 0; i < 4; i++) seen[i] = (unsigned char*)calloc(NT * K + 1, 1);
    pthread_create(&w, NULL, writer, NULL);
    for (i = 0; i < 3; i++) pthread_create(&r[i], NULL, reader, NULL);
    for (i = 0; i < NT; i++) pthread_create(&c[i], NULL, counter, NULL);
    pthread_join(w, NULL);
    for (i = 0; i < 3; i++) pthread_join(r[i], NULL);
    for (i = 0; i < NT; i++) pthread_join(c[i], NULL);
    if (i32_atomic_load(mem, 0x400) != (U32)n) cbad("i32.atomic.rmw.add final", i32_atomic_load(mem, 0x400));
    if (i64_atomic_load(mem, 0x408) != n) cbad("i64.atomic.rmw.add final", i64_atomic_load(mem, 0x408));
    if (i32_atomic_load16_u(mem, 0x410) != (U32)(n & 0xffff)) cbad("i32.atomic.rmw16.add_u final", i32_atomic_load16_u(mem, 0x410));
    if (i64_atomic_load32_u(mem, 0x418) != (n & 0xffffffffu)) cbad("i64.atomic.rmw32.add_u final", i64_atomic_load32_u(mem, 0x418));
    if (i32_atomic_load8_u(mem, 0x420) != (U32)(n & 0xff)) cbad("i32.atomic.rmw8.add_u final", i32_atomic_load8_u(mem, 0x420));
    if (i64_atomic_load(mem, 0x428) != (U64)0 - n * 0x0101010101010101ull) cbad("i64.atomic.rmw.sub final", i64_atomic_load(mem, 0x428));
    if (i32_atomic_load(mem, 0x430) != (U32)(n * 0x01010101u)) cbad("i32 cmpxchg loop final", i32_atomic_load(mem, 0x430));
    if (i64_atomic_load(mem, 0x438) != n * 0x0100010001000100ull) cbad("i64 cmpxchg loop final", i64_atomic_load(mem, 0x438));
    if (i32_atomic_load16_u(mem, 0x440) != (U32)((n * 0x0101u) & 0xffffu)) cbad("i32 cmpxchg16 loop final", i32_atomic_load16_u(mem, 0x440));
    printf("DONE torn=%lu count_bad=%lu loads=%lu endian=%d\n", torn, countBad, loads, WASM_ENDIAN == WASM_BIG_ENDIAN);
    return 0;
}
