# Edited by hand; tools_manifest.py turns it into MANIFEST.json
V8 = 'Trusted: V8 (node v20) as reference semantics, gcc 12/clang 14 compiling the generated C correctly, the typed generator staying inside the property precondition (validated by V8 before use).'
CHECKS['C01'] = dict(category='exploration', design_ref='DESIGN.md §2 C01',
  text='Runtime differential monitoring: every integer opcode over the full cross product of boundary operand sets (both header code paths), plus generated nested integer programs, executed through the real translator + C compiler and compared call by call (value, trap/no-trap, trap code, trap-handler entry count) with V8 running the same binary. Held = no divergence on the executions listed in the evidence.',
  note=V8, technique='runtime differential monitoring vs V8 + trap-handler monitor')
CHECKS['C02'] = dict(category='exploration', design_ref='DESIGN.md §2 C02',
  text='Runtime differential monitoring of every float/conversion opcode over boundary bit-pattern sets (all NaN classes, signed zeros, infinities, subnormals, ties, exact truncation boundaries +-1ulp, integers that round) and of nested float programs with NaN canonicalisation; NaN results of arithmetic compared by class, everything else bit-exactly; trap kind derived from the operand. Held = no divergence on the listed executions.',
  note=V8 + ' Host libm (sqrt, ceil, floor, trunc, nearbyint) correctly rounded; default rounding mode.', technique='runtime differential monitoring vs V8, NaN-class aware')
CHECKS['C03'] = dict(category='exploration', design_ref='DESIGN.md §2 C03',
  text='Runtime differential monitoring of control-heavy generated programs: result/trap, ordered host-call trace along the taken path, final globals and memory image compared with V8 for every call; evidence counts distinct executed paths.',
  note=V8, technique='runtime differential monitoring vs V8 with host-call trace')
CHECKS['C04'] = dict(category='exploration', design_ref='DESIGN.md §2 C04',
  text='Runtime differential monitoring of generated call-graph modules (imports, re-exports, DAG and mutually recursive calls, call_indirect through defined/imported tables with overlapping element segments and imported-global offsets): results fold every argument position, host imports log arguments and the instance pointer, every covered table slot is probed and the table bitmap is read directly.',
  note=V8, technique='runtime differential monitoring vs V8 + table-slot walk + host argument trace')
CHECKS['C05'] = dict(category='exploration', design_ref='DESIGN.md §2 C05',
  text='Runtime monitoring of operation histories on memories of many limit shapes: every step''s return value, page count and whole-image hash compared with V8; ASan fault probes make 32-bit wrap-around of base+offset observable (only access to the wrapped address is a violation).',
  note=V8 + ' Grows whose outcome depends on host resources are not issued.', technique='history differential vs V8 + ASan fault probes')
CHECKS['C07'] = dict(category='exploration', design_ref='DESIGN.md §2 C07',
  text='Every constant class (all NaN classes and signs, zeros, infinities, subnormals, extremes, 9/17-digit floats, integer and LEB boundaries, random) is placed in function bodies, global initialisers and segment offsets, translated, compiled by gcc and clang at -O0/-O2 and read back; oracle = the constant itself.',
  note='Trusted: gcc 12 / clang 14 literal parsing (they are the compilers under quantification here).', technique='runtime read-back of compiled literals')
CHECKS['C06'] = dict(category='exploration', design_ref='DESIGN.md §2 C06',
  text='Runtime differential monitoring of generated module shapes (defined/imported memory, table, globals; overlapping active and passive data segments; element segments; start function that reports the state it finds): post-instantiation dump of memory, globals, table slots and start trace, then interleaved calls on two live instances sharing imported objects, compared with two V8 instances. The driver links against independently mangled symbols, so an unreachable export is a violation.',
  note=V8 + ' Segments in bounds; offsets read only imported globals (initialisation order unobservable).', technique='post-instantiation state dump + two-instance history differential vs V8')
CHECKS['C10'] = dict(category='fault_enumeration', design_ref='DESIGN.md §3 C10',
  text='The unmodified translator, built with ASan + UBSan memory checks (reports fatal), is run as a process over valid inputs (spec corpus, examples, hostile name/size/nesting shapes) x a covering set of option combinations and output paths, and over every proper prefix of small files plus boundary/sampled prefixes of large ones. Verdict per run: exit status rule, no signal, no sanitizer report, no hang. Thorough adds valgrind memcheck on a sample.',
  note='Red-zone sanitizers miss non-adjacent/intra-object overflows; UBSan arithmetic kinds are deliberately not part of the deciding build; inputs limited to the generated/corpus classes listed in evidence.', technique='sanitizer-instrumented process runs + truncation-point enumeration')
for p in ['C08','C09','C11','C12','C13','C14','C15','C16','C17','C18','C19','C20']:
    NA[p] = 'check not implemented yet in this revision (runtime-monitoring design exists in DESIGN.md; no claim is made until the monitor runs)'
