# Edited by hand; tools_manifest.py turns it into MANIFEST.json
V8 = 'Trusted: V8 (node v20) as reference semantics, gcc 12/clang 14 compiling the generated C correctly, the typed generator staying inside the property precondition (validated by V8 before use).'
CHECKS['C01'] = dict(category='exploration', design_ref='DESIGN.md §2 C01',
  text='Runtime differential monitoring: every integer opcode over the full cross product of boundary operand sets (both header code paths), plus generated nested integer programs, executed through the real translator + C compiler and compared call by call (value, trap/no-trap, trap code, trap-handler entry count) with V8 running the same binary. Held = no divergence on the executions listed in the evidence.',
  note=V8, technique='runtime differential monitoring vs V8 + trap-handler monitor')
for p in ['C02','C03','C04','C05','C06','C07','C08','C09','C10','C11','C12','C13','C14','C15','C16','C17','C18','C19','C20']:
    NA[p] = 'check not implemented yet in this revision (runtime-monitoring design exists in DESIGN.md; no claim is made until the monitor runs)'
