#!/bin/bash
# Runs every check of MANIFEST.json in the given tier; prints one summary line per check.  usage: ./run_all.sh quick|thorough [ids...]
tier="${1:-quick}"; shift
ids="$@"; [ -z "$ids" ] && ids="C01 C02 C03 C04 C05 C06 C07 C08 C09 C10 C11 C12 C13 C14 C15 C16 C17 C18 C19 C20"
cd "$(dirname "$0")"
for id in $ids; do
  t0=$(date +%s)
  out=$(./check $id --tier $tier 2>&1); rc=$?
  t1=$(date +%s)
  echo "== $id tier=$tier rc=$rc wall=$((t1-t0))s $(echo "$out" | tail -1)"
  echo "$out" | grep -E "^(VIOLATION|KNOWN-FINDING)|INCONCLUSIVE" | cut -c1-400
done
