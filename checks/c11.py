"""C11 Generated C is well-defined: same results for every compiler and -O level.

Inputs: spec-corpus modules with their non-trapping command scripts, generated programs (no-trap profile, in bounds).
Each translated module is built in a compiler matrix. Monitors: (1) zero compiler errors for every build
(-std=gnu89 and default dialect, gcc and clang); (2) sanitizer silence in instrumented builds (full UBSan incl.
signed overflow, shift, float-cast-overflow, alignment, bounds, null; plus ASan); (3) cross-build equality: every
build prints identical lines (and, for generated programs, the V8 reference's lines).
"""
import os, shutil, collections
from vlib import env, e2e, wasm, gen, spec, progs, diff, san
from vlib.wasm import *

LEVEL = 'exploration'
RULE = ('(module, build) executions; evaluation = one build+run of a translated module on its non-trapping script; distinct = distinct '
        '(module hash, build tag); non-trivial = the script performs at least one call')

UB = ['-fsanitize=undefined', '-fno-sanitize-recover=all']
QUICK_BUILDS = [
    ('gcc-O0-gnu89', 'gcc', ['-O0', '-std=gnu89'], None),
    ('gcc-O2', 'gcc', ['-O2'], None),
    ('clang-O2', 'clang', ['-O2', '-DNDEBUG'], None),   # release configuration: assertions compiled out
    ('gcc-O1-asan-ubsan', 'gcc', ['-O1', '-g', '-fsanitize=address,undefined', '-fsanitize=float-cast-overflow', '-fno-sanitize-recover=all'], 'san'),
    ('clang-O1-ubsan', 'clang', ['-O1', '-g', '-fsanitize=undefined,float-cast-overflow', '-fno-sanitize-recover=all'], 'san'),
]


def thorough_builds():
    out = []
    for cc in ('gcc', 'clang'):
        for o in ('-O0', '-O1', '-O2', '-O3'):
            for std in ('-std=gnu89', None):
                out.append(('%s%s%s' % (cc, o, std or ''), cc, [o] + ([std] if std else []), None))
            fl = [o, '-g', '-fsanitize=undefined,float-cast-overflow', '-fno-sanitize-recover=all']
            if cc == 'gcc':
                fl = [o, '-g', '-fsanitize=address,undefined', '-fsanitize=float-cast-overflow', '-fno-sanitize-recover=all']
            out.append(('%s%s-san' % (cc, o), cc, fl, 'san'))
    return out


def _is_snan(a):
    if a < (1 << 32):
        return (a & 0x7f800000) == 0x7f800000 and (a & 0x7fffff) != 0 and not (a & 0x400000)
    return (a & 0x7ff0000000000000) == 0x7ff0000000000000 and (a & ((1 << 52) - 1)) != 0 and not (a & (1 << 51))


def snan_not_quieted(line, other):
    """True if `line` is a call with a signalling-NaN argument whose integer result differs from `other` (an int, or another output
    line of the same call) in nothing but a NaN quiet bit (bit 22 / bit 51), or sits on the other side of a mask of it."""
    p = diff.parse_call(line)
    if not p or ':' not in p[3] or p[3].startswith('trap'):
        return False
    if not any(_is_snan(a) for a in p[2]):
        return False
    v = int(p[3].split(':')[1], 16)
    if not isinstance(other, int):
        q = diff.parse_call(other)
        if not q or ':' not in q[3] or q[3].startswith('trap'):
            return False
        other = int(q[3].split(':')[1], 16)
    return (v ^ other) in (0x00400000, 1 << 51)


def compile_sweep(chk, w2c2, quick):
    """'The emitted C compiles without errors as GNU-dialect C89 and later with gcc and clang' over many PROGRAM SHAPES: generated
    control-heavy modules (value-carrying branches over mixed-type operands, never-falling-through blocks, dead code built from
    the whole opcode table, many locals/labels), translated with rotating options, each emitted file compiled stand-alone with
    gcc -std=gnu89 and clang (default dialect), -fsyntax-only plus -Werror for the diagnostics that become hard errors in
    later dialects or at link time (undeclared identifiers are errors everywhere; implicit declarations and mismatched
    prototypes are made errors so that a missing or differently named prototype is seen without linking)."""
    n = 250 if quick else 3000
    root = env.subdir('c11-sweep')
    werr = ['-Werror=implicit-function-declaration', '-Werror=implicit-int', '-Werror=incompatible-pointer-types', '-Werror=int-conversion', '-Werror=return-type']

    def one(k):
        deep = k % 3 == 0
        prof = gen.Profile(nan_canon=bool(k % 2), allow_trap=True, w_control=3.0, w_trace=1.0, w_mem=0.7, w_call=0.7,
                           max_depth=10 if deep else 5, max_stmts=3, brtable_max=20, max_locals=24, max_size=700 if deep else 350)
        c = gen.build_program_module(env.rng('c11-sweep', k), prof, n_funcs=10)
        b = c.mod.encode(wasm.rot_enc(k))
        d = os.path.join(root, 's%d' % k)
        opts = [[], ['-p'], ['-m'], ['-g'], ['-f', '3'], ['-p', '-m', '-g'], ['-f', '1', '-t', '2'], ['-g', '-m']][k % 8]
        t = e2e.translate(w2c2, b, d, 'm', opts)
        res = []
        if t.rc != 0:
            ok, msg = e2e.validate_v8(b, d)
            if ok:
                res.append(('C11:compile-sweep:translate', 'valid generated module rejected by the translator (options %s): %s' % (' '.join(opts), t.err[-300:])))
            shutil.rmtree(d, ignore_errors=True)
            return k, b, opts, res, 0
        ncomp = 0
        for fn in sorted(t.files):
            if not fn.endswith('.c'):
                continue
            for cc, std in (('gcc', ['-std=gnu89']), ('clang', [])):
                cr = env.run([cc] + std + ['-fsyntax-only', '-w'] + werr + ['-DWASM_THREADS_PTHREADS', '-I', e2e.base_include(), '-I', d, os.path.join(d, fn)], timeout=300)
                ncomp += 1
                if cr.rc != 0:
                    res.append(('C11:compile-error:sweep:%s' % cc, 'generated module %d, options %s: %s does not compile with %s %s: %s' % (k, ' '.join(opts), fn, cc, ' '.join(std), cr.err[-500:])))
                    break
        shutil.rmtree(d, ignore_errors=True)
        return k, b, opts, res, ncomp

    total = 0
    for k, b, opts, res, ncomp in env.pmap(one, range(n)):
        chk.ev(ncomp)
        total += ncomp
        chk.distinct(('sweep', env.sha(b)[:12], tuple(opts)))
        seen = set()
        for key, what in res:
            if key not in seen:
                seen.add(key)
                chk.violation(key, what, {'module.wasm': b, 'opts.txt': ' '.join(opts)})
    chk.observe('compile_sweep_modules', n, 'set')
    chk.observe('compile_sweep_compilations', total, 'set')


def nesting_probe(chk, w2c2):
    """Separately keyed probe: structured nesting deeper than C compilers' default bracket-depth limits (clang: 256). WebAssembly allows
    any nesting (an LLVM switch with n dense cases is n nested blocks); the emitted C nests one compound statement per loop/if
    (and per block with -p). Depth 200 must compile everywhere; depth 300 is reported per (construct, mode, compiler)."""
    from vlib import hostile
    d0 = env.subdir('c11-nest')
    jobs = [(kind, depth, tuple(opts)) for kind in ('block', 'loop', 'if') for depth in (200, 300) for opts in ([], ['-p'])]

    def one(job):
        kind, depth, opts = job
        b = hostile.deep_nesting(depth, kind).encode()
        d = os.path.join(d0, '%s%d%s' % (kind, depth, 'p' if opts else ''))
        t = e2e.translate(w2c2, b, d, 'm', list(opts))
        res = []
        if t.rc != 0:
            res.append(('C11:nesting:translate', 'translator rejected %d nested %ss: %s' % (depth, kind, t.err[-200:])))
            return job, b, res
        for cc in ('gcc', 'clang'):
            r = env.run([cc, '-fsyntax-only', '-w', '-I', e2e.base_include(), '-I', d, os.path.join(d, 'm.c')], timeout=600)
            if r.rc != 0:
                res.append((('C11:nesting-limit:%s:%s:%s' if depth > 256 else 'C11:nesting-below-limit-fails:%s:%s:%s') % (kind, 'pretty' if opts else 'default', cc),
                            '%d nested %ss translated with options "%s" do not compile with %s: %s' % (depth, kind, ' '.join(opts), cc, r.err.strip().splitlines()[0][-160:] if r.err.strip() else '')))
        shutil.rmtree(d, ignore_errors=True)
        return job, b, res

    for job, b, res in env.pmap(one, jobs):
        chk.ev(2)
        chk.distinct(('nesting',) + job)
        for key, what in res:
            chk.violation(key, what, {'module.wasm': b})


def big_memory_probe(chk, w2c2):
    """A memory larger than 2 GiB whose upper half is initialised by active data segments and accessed with static offsets and bulk
    instructions: indices at and above 2^31 must stay unsigned through the generated C (no negative array index, no out-of-object
    access) in every build. Reference: V8. Skipped (never failed) when the host cannot reserve the memory."""
    from vlib import diff
    try:
        import mmap
        mmap.mmap(-1, 32770 * 65536).close()
    except Exception as ex:
        chk.observe('big_memory_probe', 'skipped: %s' % ex, 'set')
        return
    m = Module()
    m.mems.append((32770, 32770, False))
    m.exports.append(('mem', 'memory', 0))
    m.datas.append(dict(mode='active', offset=[('i32.const', wasm.to_signed(0x80000010, 32))], bytes=b'\x11\x22\x33\x44upper-half'))
    m.datas.append(dict(mode='active', offset=[('i32.const', 0x7ffffffe)], bytes=b'\xa1\xa2\xa3\xa4'))
    m.datas.append(dict(mode='active', offset=[('i32.const', wasm.to_signed(0x8001ff00, 32))], bytes=bytes(range(64)), flag=2))
    m.datas.append(dict(mode='passive', bytes=b'passive!'))
    m.globals.append((I32, False, [('i32.const', wasm.to_signed(0x80000010, 32))]))
    m.add_func([I32], [I32], [], [('local.get', 0), ('i32.load', 0, 0x80000010)], export='ld_static')
    m.add_func([I32], [I32], [], [('local.get', 0), ('i32.load', 0, 0)], export='ld')
    m.add_func([], [I32], [], [('global.get', 0), ('i32.load', 0, 0)], export='ld_global')
    m.add_func([I32, I32], [], [], [('local.get', 0), ('local.get', 1), ('i32.const', 8), ('memory.copy',)], export='cp8')
    m.add_func([I32], [], [], [('local.get', 0), ('i32.const', 0), ('i32.const', 8), ('memory.init', 3)], export='init8')
    m.add_func([I32, I64], [], [], [('local.get', 0), ('local.get', 1), ('i64.store', 0, 0x7ffffff9)], export='st_static')
    b = m.encode()
    plan = e2e.Plan(m)
    lines = ['I 0', 'c 0 %d 0x0' % plan.fk('ld_static'), 'c 0 %d 0x80000010' % plan.fk('ld'), 'c 0 %d' % plan.fk('ld_global'), 'c 0 %d 0x7ffffffe' % plan.fk('ld'),
             'c 0 %d 0x8001ff3c' % plan.fk('ld'), 'c 0 %d 0x80000100 0x80000010' % plan.fk('cp8'), 'c 0 %d 0x80000100' % plan.fk('ld'),
             'c 0 %d 0x80000200' % plan.fk('init8'), 'c 0 %d 0x80000204' % plan.fk('ld'), 'c 0 %d 0x7 0x1122334455667788' % plan.fk('st_static'),
             'c 0 %d 0x80000000' % plan.fk('ld'), 'w 0 0 %d 64' % 0x7ffffff0, 'w 0 0 %d 64' % 0x8001ff00]
    script = '\n'.join(lines) + '\n'
    d = env.subdir('c11-bigmem')
    st, ref, _ = e2e.run_ref(b, plan, script, d)
    if st != 'ok':
        chk.observe('big_memory_probe', 'skipped: reference could not run it (%s)' % st, 'set')
        return
    files = {'module.wasm': b, 'script.txt': script}
    for tag, cc, cflags in (('gcc-O0', 'gcc', ['-O0']), ('gcc-O2', 'gcc', ['-O2']), ('clang-O2', 'clang', ['-O2']),
                            ('clang-O1-ubsan', 'clang', ['-O1', '-g', '-fsanitize=undefined,bounds', '-fno-sanitize-recover=all'])):
        st2, out, r = e2e.build_and_run(w2c2, b, plan, script, os.path.join(d, tag), cc=cc, cflags=cflags)
        chk.ev(len(lines))
        chk.distinct(('bigmem', tag))
        if st2 != 'ok':
            if st2 == 'run' and ('alloc' in str(out).lower() or 'out of memory' in str(out).lower()):
                chk.observe('big_memory_probe', 'skipped: host could not allocate', 'set')
                return
            chk.violation('C11:big-memory:%s:%s' % (st2, tag), 'module with data segments and accesses above 2^31 on a 32770-page memory fails at %s (%s): %s' % (st2, tag, str(out)[-700:]), files)
            continue
        for step, kind, ra, rb, i in diff.compare(ref, out, {}):
            chk.violation('C11:big-memory:value:%s' % tag, 'build %s, line %d: reference "%s" vs compiled "%s"' % (tag, i, ra[:160], rb[:160]), files)
            break
    chk.observe('big_memory_probe', 'ran', 'set')
    # the largest memory (65536 pages = 2^32 bytes): bulk instructions whose ranges END exactly at 2^32 (address + length wraps in 32 bits),
    # overlapping and disjoint; AddressSanitizer watches the library calls behind them (memcpy on overlapping ranges is undefined)
    try:
        import mmap
        mmap.mmap(-1, 65536 * 65536).close()
    except Exception as ex:
        chk.observe('top_of_memory_probe', 'skipped: %s' % ex, 'set')
        return
    m = Module()
    m.mems.append((65536, 65536, False))
    m.datas.append(dict(mode='passive', bytes=bytes(range(1, 129))))
    m.add_func([I32, I32, I32], [], [], [('local.get', 0), ('local.get', 1), ('local.get', 2), ('memory.copy',)], export='copy')
    m.add_func([I32, I32, I32], [], [], [('local.get', 0), ('local.get', 1), ('local.get', 2), ('memory.fill',)], export='fill')
    m.add_func([I32, I32, I32], [], [], [('local.get', 0), ('local.get', 1), ('local.get', 2), ('memory.init', 0)], export='init')
    m.add_func([I32], [I64], [], [('local.get', 0), ('i64.load', 0, 0)], export='ld')
    b = m.encode()
    plan = e2e.Plan(m)
    T = 0x100000000
    lines = ['I 0', 'c 0 %d %s 0x0 0x80' % (plan.fk('init'), hex(T - 0x100)), 'c 0 %d %s 0x0 0x80' % (plan.fk('init'), hex(T - 0x80)),
             'c 0 %d %s %s 0x80' % (plan.fk('copy'), hex(T - 0x80), hex(T - 0xc0)), 'c 0 %d %s %s 0x80' % (plan.fk('copy'), hex(T - 0xc0), hex(T - 0x80)),
             'c 0 %d %s %s 0x40' % (plan.fk('copy'), hex(T - 0x40), hex(T - 0x100)), 'c 0 %d %s %s 0x1' % (plan.fk('copy'), hex(T - 1), hex(T - 2)),
             'c 0 %d %s 0x5a 0x30' % (plan.fk('fill'), hex(T - 0x30)), 'c 0 %d %s %s 0x0' % (plan.fk('copy'), hex(T - 1), hex(T - 1)),
             'c 0 %d 0x10 %s 0x20' % (plan.fk('copy'), hex(T - 0x20))] + ['c 0 %d %s' % (plan.fk('ld'), hex(a)) for a in (T - 8, T - 0x40, T - 0x80, T - 0xc0, T - 0x100, 0x10, 0x28)]
    script = '\n'.join(lines) + '\n'
    d = env.subdir('c11-topmem')
    st, ref, _ = e2e.run_ref(b, plan, script, d)
    if st != 'ok':
        chk.observe('top_of_memory_probe', 'skipped: reference could not run it (%s)' % st, 'set')
        return
    files = {'module.wasm': b, 'script.txt': script}
    from vlib import san
    for tag, cc, cflags in (('gcc-O1-asan', 'gcc', ['-O1', '-g', '-fsanitize=address,undefined', '-fno-sanitize-recover=all']), ('clang-O2', 'clang', ['-O2'])):
        st2, out, r = e2e.build_and_run(w2c2, b, plan, script, os.path.join(d, tag), cc=cc, cflags=cflags)
        chk.ev(len(lines))
        chk.distinct(('topmem', tag))
        if st2 != 'ok':
            reps = san.parse(str(out))
            if reps:
                chk.violation('C11:top-of-memory:%s' % reps[0][0], 'bulk instruction ending at 2^32 on a 65536-page memory (%s): %s' % (tag, reps[0][1]), files)
            elif st2 == 'run' and ('alloc' in str(out).lower() or 'out of memory' in str(out).lower()):
                chk.observe('top_of_memory_probe', 'skipped: host could not allocate', 'set')
                return
            else:
                chk.violation('C11:top-of-memory:%s:%s' % (st2, tag), 'bulk instructions ending at 2^32 on a 65536-page memory fail at %s (%s): %s' % (st2, tag, str(out)[-600:]), files)
            continue
        for step, kind, ra, rb, i in diff.compare(ref, out, {}):
            chk.violation('C11:top-of-memory:value:%s' % tag, 'build %s, line %d: reference "%s" vs compiled "%s"' % (tag, i, ra[:160], rb[:160]), files)
            break
    chk.observe('top_of_memory_probe', 'ran', 'set')


def main(chk):
    quick = chk.tier == 'quick'
    w2c2 = env.build_translator('plain')
    rnd = env.rng('c11')
    builds = QUICK_BUILDS if quick else thorough_builds()
    items = []
    corpus = [e for e in spec.load() if any(k != 'assert_trap' for k, *_ in e['commands'])]
    for e in (rnd.sample(corpus, 90) if quick else corpus):
        items.append(('corpus', e))
    prof = gen.Profile(allow_trap=False, unreachable=False, nan_canon=True, w_trace=0.4)
    for k in range(30 if quick else 150):
        items.append(('gen', k))
    root = env.subdir('c11')

    def one(item):
        ii, (kind, x) = item
        d = os.path.join(root, 'i%d' % ii)
        ref = None
        if kind == 'corpus':
            rr = spec.runnable(x)
            if rr is None:
                return ii, kind, None, None, 'not-runnable', {}, None
            m, plan = rr
            e2 = dict(x)
            e2['commands'] = [c for c in x['commands'] if c[0] != 'assert_trap']
            script, ncalls = spec.script_for(e2, m, plan)
            if ncalls == 0:
                return ii, kind, None, None, 'no-calls', {}, None
            ref = ('meta', e2['_meta'], not m.imports)
            b = x['bytes']
            tag = x['file']
        else:
            c = gen.build_program_module(env.rng('c11-gen', x), prof, n_funcs=8)
            b = c.mod.encode()
            plan = e2e.Plan(c.mod)
            script, steps = progs.program_script(c, plan, env.rng('c11-s', x), vectors=6)
            st, ref, _ = e2e.run_ref(b, plan, script, d)
            if st != 'ok':
                return ii, kind, b, script, 'ref-' + st, {}, None
            tag = 'gen%d' % x
        t = e2e.translate(w2c2, b, d, 'm')
        if t.rc != 0:
            shutil.rmtree(d, ignore_errors=True)
            return ii, kind, b, script, 'translate-rc%s: %s' % (t.rc, t.err[-200:]), {}, ref
        drv = os.path.join(d, 'driver.c')
        open(drv, 'w').write(e2e.gen_driver(plan, t.name, 'm.h'))
        sp = os.path.join(d, 'script.txt')
        open(sp, 'w').write(script)
        srcs = [os.path.join(d, f) for f in t.files if f.endswith('.c')] + [drv]
        futex = [os.path.join(env.REPO, 'futex', f) for f in ('futex.c', 'list.c', 'map.c')]  # embedder side: threads implementation for shared memories
        outs = {}
        for btag, cc, fl, sanflag in builds:
            exe = os.path.join(d, 'prog-' + btag)
            # the module itself must compile without errors; warnings are not judged
            cr = e2e.compile_c(d, srcs + futex, exe, cc=cc, flags=fl, extra=['-DWASM_THREADS_PTHREADS', '-I', os.path.join(env.REPO, 'futex')], link=['-lpthread'])
            if cr.rc != 0:
                outs[btag] = ('compile', cr.err[-1500:])
                continue
            r = env.run([exe, sp], cwd=d, env=env.SAN_ENV, timeout=300)
            if r.timeout:
                outs[btag] = ('timeout', '')
            elif r.rc != 0:
                outs[btag] = ('run', 'rc=%s\n%s\n%s' % (r.rc, r.out[-600:], r.err[-3000:]))
            else:
                outs[btag] = ('ok', r.out.splitlines())
            os.remove(exe)
        shutil.rmtree(d, ignore_errors=True)
        return ii, tag, b, script, 'ok', outs, ref

    skipped = collections.Counter()
    for ii, tag, b, script, status, outs, ref in env.pmap(one, list(enumerate(items))):
        if status != 'ok':
            skipped[status.split(':')[0]] += 1
            if status.startswith('translate'):
                chk.observe('translate_failed')
            continue
        files = {'module.wasm': b, 'script.txt': script}
        h = env.sha(b)[:12]
        okouts = {}
        ncalls = script.count('\nc ')
        for btag, (st, out) in outs.items():
            chk.ev()
            chk.distinct((h, btag))
            chk.observe('build_' + btag)
            if st == 'compile':
                chk.violation('C11:compile-error:%s' % btag.split('-san')[0], '%s does not compile with %s: %s' % (tag, btag, out[-600:]), files)
            elif st == 'run':
                reps = san.parse(out)
                if reps:
                    chk.violation('C11:%s' % reps[0][0].rsplit(':', 1)[0], '%s build %s: %s' % (tag, btag, reps[0][1]), dict(files, report=out))
                else:
                    chk.violation('C11:crash:%s' % btag, '%s build %s crashed: %s' % (tag, btag, out[-400:]), dict(files, report=out))
            elif st == 'timeout':
                chk.violation('C11:hang:%s' % btag, '%s build %s hangs' % (tag, btag), files)
            else:
                okouts[btag] = out
        chk.observe('calls_executed', ncalls * len(okouts))
        if okouts:
            first_tag = sorted(okouts)[0]
            meta = {}
            if isinstance(ref, tuple):
                meta, use_expected = ref[1], ref[2]
                ref = None
                if use_expected:
                    # second oracle: the spec-authored expectations (only for modules without imports)
                    for btag, out in okouts.items():
                        for l in out:
                            msg = spec.check_expected(l, meta)
                            chk.observe('spec_expectations_checked')
                            if msg:
                                key = 'C11:spec-expectation:%s' % btag
                                if msg.startswith('expected 0x') and snan_not_quieted(l, int(msg.split(' ')[1].rstrip(','), 16)):
                                    key = 'C11:snan-not-quieted:%s' % btag
                                chk.violation(key, '%s build %s: "%s": %s' % (tag, btag, l, msg), files)
                                break
            base = ref if ref is not None else okouts[first_tag]
            for btag, out in okouts.items():
                if out != base and not (len(out) == len(base) and all(spec.nan_tolerant_equal(x_, y_, meta) for x_, y_ in zip(base, out))):
                    dl = [(x_, y_) for x_, y_ in zip(base, out) if x_ != y_][:2]
                    against = 'V8 reference' if ref is not None else first_tag
                    alld = [(x_, y_) for x_, y_ in zip(base, out) if x_ != y_ and not spec.nan_tolerant_equal(x_, y_, meta)]
                    kname = 'snan-not-quieted' if alld and all(snan_not_quieted(y_, x_) for x_, y_ in alld) else 'build-divergence'
                    chk.violation('C11:%s:%s' % (kname, btag), '%s: build %s prints different results than %s: %s' % (tag, btag, against, dl),
                                  dict(files, a='\n'.join(base), b='\n'.join(out)))
        if ii < 2:
            chk.sample({'module': tag, 'builds': sorted(outs), 'calls': ncalls})
    compile_sweep(chk, w2c2, quick)
    nesting_probe(chk, w2c2)
    big_memory_probe(chk, w2c2)
    for k, v in skipped.items():
        chk.observe('skipped_' + k, v, 'set')
    chk.observe('builds', [b_[0] for b_ in builds], 'set')
    chk.assume('gcc 12 / clang 14 on x86-64 only; scripts contain no trapping or out-of-bounds calls (spec assert_return/action commands, no-trap generator profile)')


from checks.c01 import replay
