"""C04 Direct, indirect, recursive and imported calls reach the right function.

Module-shape generator: types, imported host functions (some re-exported, some placed in the table), defined functions
with 0..10 mixed-type parameters, DAG calls, depth-bounded mutual recursion, call_indirect through a defined or imported
table filled by 1..4 (possibly overlapping) element segments whose offsets are constants or an imported global.
Every function folds its identity constant and every parameter (in order, position-weighted) into its result, and host
imports log every argument, so a permuted argument, a shifted function index or a wrong slot changes a result or a trace.
Table placement is additionally read directly (non-NULL bitmap) and every covered slot is called through a probe.
"""
import os, shutil
from vlib import env, e2e, gen, wasm, diff, progs
from vlib.wasm import *

LEVEL = 'exploration'
RULE = ('generated call-graph modules; evaluation = one exported call (entry function or table-slot probe); distinct = distinct '
        '(module hash, entry, arguments); non-trivial = the call executes at least one nested call (all entries do by construction)')

TYPES = [I32, I64, F32, F64]


def fold(t):
    """instructions: [acc(i64 on stack), value of type t on stack] -> acc' (i64):  acc*31 + toI64(value)"""
    conv = {I32: [('i64.extend_i32_u',)], I64: [], F32: [('i32.reinterpret_f32',), ('i64.extend_i32_u',)],
            F64: [('i64.reinterpret_f64',)]}[t]
    return conv, [('i64.add',)]


def from_acc(t):
    """acc (i64) -> value of type t, never NaN, exactly representable"""
    if t == I32:
        return [('i32.wrap_i64',)]
    if t == I64:
        return []
    if t == F32:
        return [('i64.const', 0xffff), ('i64.and',), ('f32.convert_i64_s',)]
    return [('i64.const', 0xfffff), ('i64.and',), ('f64.convert_i64_s',)]


def arg_value(rnd, t, salt):
    """A recognisable constant of type t (never NaN)."""
    if t == I32:
        return [('i32.const', (0x11110000 + salt * 0x101) & 0xffffffff)]
    if t == I64:
        return [('i64.const', 0x2222000000000000 + salt * 0x10001)]
    if t == F32:
        return [('f32.const', f32_bits(float(1000 + salt) + 0.5))]
    return [('f64.const', f64_bits(float(2000 + salt) + 0.25))]


def build(rnd, k):
    m = Module()
    n_imp = rnd.randint(0, 6)
    imported_table = rnd.random() < 0.4
    n_def = rnd.randint(2, 40 if rnd.random() < 0.3 else 14)
    if k % 12 == 7:
        n_def = rnd.randint(130, 170)  # function / type indices that need two LEB128 bytes
    # pre-populate some types so type indices differ from function indices
    for _ in range(rnd.randint(0, 4)):
        m.add_type([rnd.choice(TYPES) for _ in range(rnd.randint(0, 3))], [rnd.choice(TYPES)] if rnd.random() < 0.7 else [])
    sigs = []  # funcidx -> (params, result)
    imp_seen = []
    for i in range(n_imp):
        ps = [rnd.choice(TYPES) for _ in range(rnd.randint(0, 6))]
        res = rnd.choice([I32, I64, F32, F64, None])
        # import names exercise the documented mangling (<module>__<name>, X%02X escapes, underscore doubling): names that contain the
        # escape character itself, text that LOOKS like an escape next to the character it would stand for, punctuation, UTF-8
        imod = rnd.choice(['env', 'env', 'a.b', 'h\u00f4te', 'X', 'e_', 'wasi:io/x@0.2'])
        inm = rnd.choice(['host%d', 'hostX%d', 'getX2Ev%d', 'get.v%d', 'X%d', 'h__%d', '_%d_', 'h-%d', 'h %d', '\u8a08%d', 'h\u00e9%d', 'xX58%d', 'HOST%d', 'h$%d', '%d']) % i
        if imp_seen and rnd.random() < 0.3:
            # the SAME field name (and, half of the time, the same signature) imported from a DIFFERENT module: two distinct host
            # functions <modA>__<name> and <modB>__<name>
            pm_, pn_, pps_, pres_ = rnd.choice(imp_seen)
            others = [x for x in ['env', 'a.b', 'h\u00f4te', 'X', 'e_', 'math', 'env2'] if x not in [q[0] for q in imp_seen if q[1] == pn_]]
            if others:
                imod, inm = rnd.choice(others), pn_
                if rnd.random() < 0.5:
                    ps, res = list(pps_), pres_
        imp_seen.append((imod, inm, tuple(ps), res))
        m.import_func(imod, inm, ps, [res] if res else [])
        sigs.append((tuple(ps), res))
    goff = None
    if rnd.random() < 0.5:
        m.imports.append(('env', 'tbase', 'global', (I32, False)))
        goff = rnd.randint(0, 5)
    tsize = rnd.randint(8, 48)
    if imported_table:
        m.imports.append(('env', 'tbl', 'table', (tsize, None if rnd.random() < 0.5 else tsize + 4)))
    else:
        m.tables.append((tsize, tsize))
        m.exports.append(('tbl', 'table', 0))
    budget = m.n_imported('global') + len(m.globals)
    m.globals.append((I32, True, [('i32.const', 0)]))
    # signatures for defined functions
    defs = []
    pairs = []
    for j in range(n_def):
        np_ = rnd.choice([0, 1, 2, 3, 4, 5, 10, rnd.randint(0, 10)]) if rnd.random() < 0.95 else rnd.choice([15, 16, 17, 31, 32, 33, 64, 100])  # occasionally very wide
        ps = [rnd.choice(TYPES) for _ in range(np_)]
        res = rnd.choice([I32, I64, F32, F64, None]) if rnd.random() < 0.9 else None
        defs.append((tuple(ps), res))
    # mutual recursion pairs: force first param i32 depth
    for j in range(0, n_def - 1, 5):
        if rnd.random() < 0.6:
            a, b = j, j + 1
            defs[a] = ((I32,) + defs[a][0][:6], defs[a][1] or I64)
            defs[b] = ((I32,) + defs[b][0][:6], defs[b][1] or I32)
            pairs.append((a, b))
    # twins: functions whose locals and code are BYTE-IDENTICAL but whose value types differ (only polymorphic instructions - local.get,
    # local.tee, select, drop - touch the typed values): each must stay its own function with its own C types
    twins = set()
    if rnd.random() < 0.5:
        for t in rnd.sample(TYPES, rnd.randint(2, 4)):
            twins.add(len(defs))
            defs.append(((t, t, t, I32), t))
    base = n_imp
    for j, s in enumerate(defs):
        sigs.append(s)
    rec_partner = {}
    for a, b in pairs:
        rec_partner[a] = b
        rec_partner[b] = a
    # table contents
    slots = {}  # slot -> funcidx (final, after overlap)
    segs = []
    for s in range(rnd.randint(1, 4)):
        n = rnd.randint(1, 6)
        if goff is not None and rnd.random() < 0.5:
            off_expr = [('global.get', 0)]
            off = goff
        else:
            off = rnd.randint(0, tsize - n - 1)
            off_expr = [('i32.const', off)]
        n = min(n, tsize - off)
        fl = [rnd.randrange(len(sigs)) for _ in range(n)]
        if rnd.random() < 0.3 and tsize >= 24:
            # a long run of one function followed by other entries (what a vtable filler or a default handler produces)
            off = rnd.randint(0, tsize - 24)
            off_expr = [('i32.const', off)]
            run = rnd.randint(14, 20)
            fl = [rnd.randrange(len(sigs))] * run + [rnd.randrange(len(sigs)) for _ in range(rnd.randint(1, 3))]
        segs.append((0, off_expr, fl))
        for i, f in enumerate(fl):
            slots[off + i] = f
    m.elems = segs
    slot_by_sig = {}
    for sl, f in slots.items():
        slot_by_sig.setdefault(sigs[f], []).append(sl)

    def call_seq(callee, salt, args_from=None):
        ps, res = sigs[callee]
        out = []
        for i, pt in enumerate(ps):
            out += arg_value(rnd, pt, salt * 16 + i)
        return out, ps, res

    # bodies
    for j, (ps, res) in enumerate(defs):
        if j in twins:
            m.add_func(list(ps), [res], [(1, I64)],
                       [('local.get', 0), ('local.get', 1), ('local.get', 3), ('select',), ('local.tee', 0), ('local.get', 2), ('local.get', 3), ('i32.const', 2), ('i32.and',), ('select',),
                        ('nop',), ('nop',), ('local.get', 1), ('drop',), ('nop',), ('nop',)])
            continue
        fidx = base + j
        nloc = len(ps)
        acc = nloc  # i64 local
        body = [('i64.const', 0x5000 + fidx), ('local.set', acc)]
        for i, pt in enumerate(ps):
            conv, _ = fold(pt)
            body += [('local.get', acc), ('i64.const', 31), ('i64.mul',), ('local.get', i)] + conv + [('i64.add',), ('local.set', acc)]
        ncalls = rnd.randint(0, 3)
        for cno in range(ncalls):
            kind = rnd.random()
            cands_direct = list(range(0, fidx))  # imports + lower defined (DAG)
            call = None
            if kind < 0.45 and cands_direct:
                callee = rnd.choice(cands_direct)
                args, cps, cres = call_seq(callee, fidx * 4 + cno)
                # sometimes forward own params of matching type instead of constants
                call = args + [('call', callee)]
            elif kind < 0.8 and slot_by_sig:
                sig = rnd.choice(list(slot_by_sig))
                cps, cres = sig
                cand_slots = [s for s in slot_by_sig[sig] if slots[s] < fidx]  # keep the graph acyclic
                if cand_slots:
                    args = []
                    for i, pt in enumerate(cps):
                        args += arg_value(rnd, pt, fidx * 8 + cno * 2 + i)
                    a, b = rnd.choice(cand_slots), rnd.choice(cand_slots)
                    pick = [('i32.const', a), ('i32.const', b), ('local.get', acc), ('i32.wrap_i64',), ('i32.const', 1), ('i32.and',), ('select',)]
                    ti = m.add_type(cps, [cres] if cres else [])
                    call = args + pick + [('call_indirect', ti, 0)]
            if call is None:
                continue
            guarded = [('global.get', budget), ('i32.const', 0), ('i32.gt_s',), ('if', None),
                       ('global.get', budget), ('i32.const', 1), ('i32.sub',), ('global.set', budget)]
            guarded += [('local.get', acc), ('i64.const', 131), ('i64.mul',)]
            guarded += call
            if cres:
                conv, _ = fold(cres)
                guarded += conv + [('i64.add',)]
            guarded += [('local.set', acc), ('end',)]
            body += guarded
        if j not in rec_partner and ps and ps[0] == I32 and rnd.random() < 0.3:
            # direct self recursion on the first parameter (bounded to 31 levels)
            rec = [('local.get', 0), ('i32.const', 31), ('i32.and',), ('local.tee', 0), ('i32.const', 0), ('i32.gt_s',), ('if', None),
                   ('local.get', acc), ('i64.const', 13), ('i64.mul',), ('local.get', 0), ('i32.const', 1), ('i32.sub',)]
            for i, pt in enumerate(ps[1:]):
                rec += [('local.get', i + 1)] if rnd.random() < 0.7 else arg_value(rnd, pt, fidx + i)
            rec += [('call', fidx)]
            if res:
                conv, _ = fold(res)
                rec += conv + [('i64.add',)]
            rec += [('local.set', acc), ('end',)]
            body += rec
        if j in rec_partner:
            other = base + rec_partner[j]
            ops_, ores = sigs[other]
            rec = [('local.get', 0), ('i32.const', 31), ('i32.and',), ('local.tee', 0), ('i32.const', 0), ('i32.gt_s',), ('if', None),
                   ('local.get', acc), ('i64.const', 17), ('i64.mul',),
                   ('local.get', 0), ('i32.const', 1), ('i32.sub',)]
            for i, pt in enumerate(ops_[1:]):
                # forward own parameter when types line up, otherwise a constant
                if i + 1 < len(ps) and ps[i + 1] == pt and rnd.random() < 0.7:
                    rec += [('local.get', i + 1)]
                else:
                    rec += arg_value(rnd, pt, fidx + i)
            rec += [('call', other)]
            conv, _ = fold(ores)
            rec += conv + [('i64.add',), ('local.set', acc), ('end',)]
            body += rec
        if res:
            body += [('local.get', acc)] + from_acc(res)
        m.add_func(list(ps), [res] if res else [], [(1, I64)], body)
    # exported int-only wrappers for every defined function, re-exports of some imports, probes per signature
    entries = []
    for j, (ps, res) in enumerate(defs):
        wp = [I32 if p in (I32, F32) else I64 for p in ps]
        body = [('i32.const', 60), ('global.set', budget)]
        for i, p in enumerate(ps):
            body.append(('local.get', i))
            if p == F32:
                body += [('f32.reinterpret_i32',)]
            elif p == F64:
                body += [('f64.reinterpret_i64',)]
        body.append(('call', base + j))
        wr = []
        if res:
            body += {F32: [('i32.reinterpret_f32',)], F64: [('i64.reinterpret_f64',)]}.get(res, [])
            wr = [I32 if res in (I32, F32) else I64]
        name = 'e%d' % j
        m.add_func(wp, wr, [], body, export=name)
        entries.append((name, ps, j in rec_partner))
    for i in range(n_imp):
        ps, res = sigs[i]
        if rnd.random() < 0.5 and all(p in (I32, I64) for p in ps) and res in (I32, I64, None):
            m.exports.append(('reimp%d' % i, 'func', i))
            entries.append(('reimp%d' % i, ps, False))
    probes = {}
    for sig in slot_by_sig:
        cps, cres = sig
        wp = [I32] + [I32 if p in (I32, F32) else I64 for p in cps]
        body = [('i32.const', 60), ('global.set', budget)]
        for i, p in enumerate(cps):
            body.append(('local.get', i + 1))
            if p == F32:
                body += [('f32.reinterpret_i32',)]
            elif p == F64:
                body += [('f64.reinterpret_i64',)]
        body.append(('local.get', 0))
        body.append(('call_indirect', m.add_type(cps, [cres] if cres else []), 0))
        wr = []
        if cres:
            body += {F32: [('i32.reinterpret_f32',)], F64: [('i64.reinterpret_f64',)]}.get(cres, [])
            wr = [I32 if cres in (I32, F32) else I64]
        name = 'probe%d' % len(probes)
        m.add_func(wp, wr, [], body, export=name)
        probes[sig] = name
    # duplicate type entries: the type section may list structurally identical signatures several times; a function declared with the
    # twin index has the SAME type as far as call_indirect is concerned. (Last step: every call_indirect above names the first index.)
    if rnd.random() < 0.5:
        for f in m.funcs:
            if rnd.random() < 0.3:
                m.types.append(m.types[f.type_idx])
                f.type_idx = len(m.types) - 1
    return m, entries, probes, slots, sigs, goff


def duptype_module(rnd):
    """A defined table whose functions all have ONE structural signature but are declared through DIFFERENT (duplicate) entries of the type
    section, probed by call_indirect naming every one of those entries: WebAssembly compares function types structurally, so every
    probe reaches every initialised slot."""
    m = Module()
    pt = rnd.choice(TYPES)
    nf = rnd.randint(2, 4)
    first = m.add_type([pt, I32], [I32])
    tidx = [first]
    for _ in range(nf - 1 + rnd.randint(0, 1)):
        m.types.append(m.types[first])
        tidx.append(len(m.types) - 1)
    if rnd.random() < 0.5:           # an unrelated entry in between does not change anything
        m.add_type([I64], [])
    tsize = nf + rnd.randint(1, 3)
    m.tables.append((tsize, tsize))
    if rnd.random() < 0.5:
        m.exports.append(('tbl', 'table', 0))
    for j in range(nf):
        m.add_func([pt, I32], [I32], [], [('local.get', 1), ('i32.const', 1000 * (j + 1)), ('i32.add',)])
        m.funcs[-1].type_idx = tidx[j]
    order = list(range(nf))
    rnd.shuffle(order)
    if rnd.random() < 0.4:
        order = order[:-1] + [order[0]]          # one function twice, one not in the table at all
    m.elems = [(0, [('i32.const', 0)], order)]
    names = []
    for t in tidx:
        name = 'via%d' % t
        m.add_func([I32, pt, I32], [I32], [], [('local.get', 1), ('local.get', 2), ('local.get', 0), ('call_indirect', t, 0)], export=name)
        names.append(name)
    return m, names, len(order)          # only initialised slots are called (precondition of the property)


def duptype_part(chk, w2c2, builds, n):
    def one(k):
        rnd = env.rng('c04-duptype', k)
        m, names, tsize = duptype_module(rnd)
        b = m.encode(wasm.rot_enc(k))
        plan = e2e.Plan(m)
        lines = ['I 0']
        for name in names:
            for sl in range(tsize):
                lines.append('c 0 %d %s 0x0 %s' % (plan.fk(name), hex(sl), hex(rnd.randint(0, 900))))
        script = '\n'.join(lines) + '\n'
        d = env.subdir('c04-dt-%d' % k)
        st, ref, _ = e2e.run_ref(b, plan, script, d)
        outs = {}
        if st == 'ok':
            for tag, cc, cflags in builds:
                outs[tag] = e2e.build_and_run(w2c2, b, plan, script, os.path.join(d, tag), cc=cc, cflags=cflags, opts=progs.opts_for(k))[:2]
        shutil.rmtree(d, ignore_errors=True)
        return k, b, script, st, ref, outs

    for k, b, script, st, ref, outs in env.pmap(one, range(n)):
        if st != 'ok':
            chk.inconclusive('duplicate-type module %d: reference %s: %s' % (k, st, str(ref)[:300]))
            continue
        files = {'module.wasm': b, 'script.txt': script}
        chk.observe('duplicate_type_modules')
        for l in ref:
            pc = diff.parse_call(l)
            if pc:
                chk.ev()
                chk.observe('duplicate_type_calls_trap' if 'trap' in pc[3] else 'duplicate_type_calls_ok')
        for tag, (cst, out) in outs.items():
            if cst != 'ok':
                chk.violation('C04:duplicate-types:%s' % cst, 'module %d failed at %s (%s): %s' % (k, cst, tag, str(out)[:1200]), files)
                continue
            for step, kind, ra, rb, i in diff.compare(ref, out, {}):
                chk.violation('C04:duplicate-types:%s' % kind, 'module %d build %s line %d: reference "%s" vs compiled "%s"' % (k, tag, i, ra[:300], rb[:300]),
                              dict(files, reference_out='\n'.join(ref), compiled_out='\n'.join(out)))
                break


def nonnan_bits(rnd, t):
    if t == I32:
        return rnd.choice(gen.B32) if rnd.random() < 0.5 else rnd.getrandbits(32)
    if t == I64:
        return rnd.choice(gen.B64) if rnd.random() < 0.5 else rnd.getrandbits(64)
    if t == F32:
        return f32_bits(float(rnd.randint(-1000, 1000)) / 8)
    return f64_bits(float(rnd.randint(-100000, 100000)) / 16)


def main(chk):
    quick = chk.tier == 'quick'
    w2c2 = env.build_translator('plain')
    nmods = 200 if quick else 4000
    builds = [('gcc-O1', 'gcc', ['-O1'])] + ([] if quick else [('clang-O2', 'clang', ['-O2'])])

    def one(k):
        rnd = env.rng('c04', k)
        m, entries, probes, slots, sigs, goff = build(rnd, k)
        b = m.encode(wasm.rot_enc(k))
        plan = e2e.Plan(m, import_inits={('env', 'tbase'): goff or 0})
        lines = ['I 0', 'T 0 0']
        nvec = 4
        for name, ps, is_rec in entries:
            for v in range(nvec):
                args = []
                for i, p in enumerate(ps):
                    if is_rec and i == 0:
                        args.append(rnd.choice([0, 1, 2, 3, 7, 20]))
                    else:
                        args.append(nonnan_bits(rnd, p))
                lines.append(('c 0 %d %s' % (plan.fk(name), ' '.join(hex(a) for a in args))).rstrip())
                lines.append('t')
        for sl, f in sorted(slots.items()):
            sig = sigs[f]
            args = [sl] + [nonnan_bits(rnd, p) for p in sig[0]]
            lines.append('c 0 %d %s' % (plan.fk(probes[sig]), ' '.join(hex(a) for a in args)))
            lines.append('t')
        script = '\n'.join(lines) + '\n'
        d = env.subdir('c04-%d' % k)
        st, ref, _ = e2e.run_ref(b, plan, script, d)
        outs = {}
        if st == 'ok':
            for tag, cc, cflags in builds:
                outs[tag] = e2e.build_and_run(w2c2, b, plan, script, os.path.join(d, tag), cc=cc, cflags=cflags, opts=progs.opts_for(k))[:2]
        shutil.rmtree(d, ignore_errors=True)
        return k, b, script, st, ref, outs, slots, len(entries), m

    rejected = 0
    for k, b, script, st, ref, outs, slots, nent, m in env.pmap(one, range(nmods)):
        if st == 'invalid':
            rejected += 1
            chk.log('generator bug: %s' % ref)
            continue
        if st != 'ok':
            chk.inconclusive('reference failed on module %d: %s' % (k, str(ref)[:300]))
            continue
        files = {'module.wasm': b, 'script.txt': script}
        h = env.sha(b)[:12]
        ncalls = 0
        for l in ref:
            p = diff.parse_call(l)
            if p:
                chk.ev()
                chk.distinct((h, p[1]) + tuple(p[2]))
                if 'trap' in p[3]:
                    chk.observe('ref_traps_' + p[3].split(':')[1])
            elif ' t n=' in l:
                chk.observe('host_calls_traced', int(l.split(' n=')[1].split(' ')[0]))
        chk.observe('table_slots_probed', len(slots))
        chk.observe('imports', m.n_imported('func'))
        chk.observe('imported_table_modules', m.n_imported('table'))
        chk.observe('defined_functions', len(m.funcs))
        for tag, (cst, out) in outs.items():
            if cst != 'ok':
                chk.violation('C04:%s' % cst, 'module %d failed at %s (%s): %s' % (k, cst, tag, str(out)[:1200]), files)
                continue
            seen = set()
            for step, kind, ra, rb, i in diff.compare(ref, out, {}):
                if 'BADINST' in rb:
                    kind = 'host-instance'
                key = 'C04:%s' % kind
                if key in seen:
                    continue
                seen.add(key)
                chk.violation(key, 'module %d build %s line %d: reference "%s" vs compiled "%s"' % (k, tag, i, ra[:300], rb[:300]),
                              dict(files, reference_out='\n'.join(ref), compiled_out='\n'.join(out)))
        if k < 2:
            chk.sample({'module': k, 'bytes': len(b), 'lines': ref[1:6]})
    duptype_part(chk, w2c2, builds, 16 if quick else 300)
    chk.observe('modules', nmods, 'set')
    chk.observe('generator_rejected', rejected, 'set')
    if rejected * 100 > nmods:
        chk.inconclusive('generator produced %d/%d modules rejected by V8' % (rejected, nmods))
    chk.assume('V8 is the reference; call_indirect only through initialised, in-range, signature-correct slots (property precondition)')


from checks.c01 import replay
