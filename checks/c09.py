"""C09 Output options and worker scheduling never change what the program does.

Monitors over the translator's output directory for every option point:
 a exit status 0            b each function emitted exactly once across main + s*.c + d*.c
 c for equal formatting options the function texts equal the -t 1 single-file baseline's
 d determinism: repeated runs / thread counts / translator build configurations give byte-identical files
 e every emitted .c compiles on its own against the generated header (gcc -fsyntax-only -std=gnu89)
 f behaviour: sampled variants are linked with the driver and must print the baseline's lines
 g -r: a function placed in an s-file has a byte-identical (locals+code) body in the reference (independent decoder)
 h TSan build of the translator with yields injected at the hand-off hook points: no race report, no deadlock;
   the hook log gives the distinct task->thread assignment vectors actually observed.
"""
import os, re, shutil, glob, hashlib
from vlib import env, e2e, wasm, gen, hostile, progs, diff, san
from vlib.wasm import *

LEVEL = 'exploration'
RULE = ('translator runs over (module, option point); evaluation = one run whose output directory is checked by monitors a-e,g (and f on a '
        'sample); distinct = distinct (module hash, option tuple, build); TSan runs: distinct = distinct task->thread assignment vectors')

DEF = re.compile(r'^(?:void|U32|U64|F32|F64) ((?:\w+_)?f(\d+))\(.*\) \{$')


def parse_functions(text):
    """name -> (index, text) of every function definition f<k> in a C file."""
    out = {}
    dups = []
    # export wrappers (which may be NAMED f<k> by the module) follow the exports array; function definitions precede it
    cut = text.find('\nwasmFuncExport ')
    if cut >= 0:
        text = text[:cut]
    lines = text.split('\n')
    i = 0
    while i < len(lines):
        m = DEF.match(lines[i])
        if not m:
            i += 1
            continue
        depth = 0
        j = i
        while j < len(lines):
            l = lines[j]
            if not l.startswith('#'):
                depth += l.count('{') - l.count('}')
            if depth == 0:
                break
            j += 1
        name = m.group(1)
        body = '\n'.join(lines[i:j + 1])
        if name in out:
            dups.append(name)
        out[name] = (int(m.group(2)), body)
        i = j + 1
    return out, dups


def run_variant(w2c2, mpath, d, opts, envx=None, timeout=180):
    shutil.rmtree(d, ignore_errors=True)
    os.makedirs(d)
    name = os.path.basename(mpath)[:-5]
    e = dict(env.SAN_ENV)
    if envx:
        e.update(envx)
    r = env.run([w2c2] + opts + [mpath, os.path.join(d, name + '.c')], cwd=d, env=e, timeout=timeout)
    files = {}
    for f in sorted(os.listdir(d)):
        p = os.path.join(d, f)
        if os.path.isfile(p) and (f.endswith('.c') or f.endswith('.h') or f == 'datasegments'):
            files[f] = open(p, 'rb').read()
    return r, files


def all_functions(files):
    funcs = {}
    dups = []
    where = {}
    for fn, b in files.items():
        if not fn.endswith('.c'):
            continue
        fs, dd = parse_functions(b.decode('latin-1'))
        dups += dd
        for n, v in fs.items():
            if n in funcs:
                dups.append(n)
            funcs[n] = v
            where[n] = fn
    return funcs, dups, where


def fmt_key(opts):
    return tuple(o for o in opts if o in ('-p', '-m', '-g'))


def variant_modules(rnd, quick):
    """(tag, bytes, has_driver_ctx) list"""
    mods = []
    corpus = sorted(glob.glob(os.path.join(env.VERIF, 'corpus', 'spec', '*.wasm')))
    for p in rnd.sample(corpus, 12 if quick else 100):
        mods.append(('corpus-' + os.path.basename(p)[:-5].replace('.', '_'), open(p, 'rb').read(), None))
    for n in ('coremark', 'dino'):
        mods.append((n, open(os.path.join(env.VERIF, 'corpus', 'examples', n + '.wasm'), 'rb').read(), None))
    for named in ('all', 'some', 'dups', 'none'):
        mods.append(('manyf' + named, hostile.many_funcs(23, named).encode(), None))
    # a dense switch (thousands of nested blocks): the code generator recurses per nesting level on whichever thread writes the file
    mods.append(('denseswitch', hostile.dense_switch(3000 if quick else 6000).encode(), None))
    for k in range(3 if quick else 12):
        mods.append(('dseg%d' % k, dataseg_module(env.rng('c09-dseg', k))[0].encode(), ('dseg', k)))
    for k in range(8 if quick else 30):
        # every other generated program is control-heavy (value-carrying branches out of nested blocks, switches, dead code): the shapes
        # whose C text differs most between the formatting modes
        prof = gen.Profile() if k % 2 == 0 else gen.Profile(nan_canon=True, allow_trap=False, w_control=3.0, w_trace=1.5, w_mem=0.5, w_call=0.5, max_depth=6, max_stmts=4, brtable_max=20, max_locals=20, max_size=400)
        c = gen.build_program_module(env.rng('c09-gen', k), prof, n_funcs=9)
        if k % 2:
            c.mod.func_names = {i + 2: 'g%d_%d' % (k, i) for i in range(0, 9, 2)}
        mods.append(('gen%d' % k, c.mod.encode(), (c, k)))
    # call-graph shapes of C04 (imports that are re-exported, placed in element segments, called indirectly): the option points
    # (-m, -g, -f ...) must keep every file compilable and every symbol consistent for them as well
    from checks import c04 as _c04
    for k in range(2 if quick else 10):
        cm = _c04.build(env.rng('c09-c04shape', k), k)[0]
        if not any(e[1] == 'func' and e[2] < cm.n_imported('func') for e in cm.exports) and cm.n_imported('func'):
            cm.exports.append(('reexported_import', 'func', 0))
        mods.append(('c04shape%d' % k, cm.encode(), None))
    return mods


def dataseg_module(rnd, init_active=False):
    """Module mixing passive and active data segments, memory.init users and readers (behaviour must not depend on -d)."""
    m = Module()
    m.mems.append((1, None, False))
    m.exports.append(('mem', 'memory', 0))
    n = rnd.randint(2, 6)
    pos = 64
    kinds = []
    for k in range(n):
        data = bytes(rnd.getrandbits(8) for _ in range(rnd.choice([1, 3, 17, 18, 19, 40, 300])))
        if rnd.random() < 0.5 or k == 0:
            m.datas.append(dict(mode='passive', bytes=data))
            kinds.append(('passive', len(data)))
        else:
            m.datas.append(dict(mode='active', offset=[('i32.const', pos)], bytes=data))
            kinds.append(('active', len(data)))
            pos += len(data) + rnd.randint(0, 7)
    for k in range(n):
        # memory.init normally refers to passive segments; referring to an active (already dropped) one is valid only with
        # length 0 and is exercised by a separate, explicitly keyed probe
        if kinds[k][0] == 'passive' or init_active:
            m.add_func([I32, I32, I32], [], [], [('local.get', 0), ('local.get', 1), ('local.get', 2), ('memory.init', k)], export='init%d' % k)
    m.add_func([I32], [I32], [], [('local.get', 0), ('i32.load8_u', 0, 0)], export='load8')
    for k in range(rnd.randint(0, 5)):
        hostile.tiny_func(m, k, export='pad%d' % k)
    m.datacount = True
    return m, kinds


def _skip_leb(raw, p):
    while raw[p] & 0x80:
        p += 1
    return p + 1


def tweak_body(raw, where):
    """Flip one bit of one code byte of a raw function body (locals declarations + code), keeping the declarations intact."""
    p = 0
    n = 0
    sh = 0
    while True:
        c = raw[p]; p += 1
        n |= (c & 0x7f) << sh; sh += 7
        if not c & 0x80:
            break
    for _ in range(n):
        p = _skip_leb(raw, p) + 1
    code0, last = p, len(raw) - 1  # raw[last] is the final `end`
    if last <= code0:
        pos = last  # empty body: only the end byte can change
    else:
        pos = {0: code0, 1: last - 1, 2: max(code0, last - 2), 3: max(code0, last - 3), 4: (code0 + last) // 2}[where]
    out = bytearray(raw)
    out[pos] ^= 0x01
    return bytes(out)


def reference_variants(rnd, b):
    """Reference modules for -r: itself, some bodies changed, permuted/duplicated, unrelated."""
    out = [('self', b)]
    try:
        m = wasm.decode(b)
        if m.funcs:
            m2 = wasm.decode(b)
            for i in range(0, len(m2.funcs), 2):
                m2.funcs[i].body = m2.funcs[i].body + [('nop',)]
            out.append(('changed', m2.encode()))
            # identical code, different local declarations: the bodies are NOT byte-identical, so nothing may be static
            m5 = wasm.decode(b)
            for f in m5.funcs:
                f.locals = list(f.locals) + [(1, I64)]
            out.append(('localschanged', m5.encode()))
            m3 = wasm.decode(b, keep_raw=True)
            # same bodies in a different order, with one duplicated: build a fresh module of raw bodies
            m4 = Module()
            raws = list(m3.raw_bodies)
            rnd.shuffle(raws)
            raws = raws + raws[:1]
            t = m4.add_type([], [])
            for raw in raws:
                m4.funcs.append(wasm.Func(t, raw=raw))
            out.append(('permuted', m4.encode()))  # not a valid module for V8, but w2c2 only hashes the bodies
            # every body differs from the module's in exactly ONE byte (same length), at a position rotating over: first code byte,
            # the three bytes before the final `end`, the middle. No function may then be classified static.
            for vt, rot in (('tweak', 0), ('tweak2', 2)):
                m6 = Module()
                t = m6.add_type([], [])
                for i, raw in enumerate(m3.raw_bodies):
                    m6.funcs.append(wasm.Func(t, raw=tweak_body(raw, (i + rot) % 5)))
                out.append((vt, m6.encode()))
    except Exception:
        pass
    out.append(('unrelated', open(os.path.join(env.VERIF, 'corpus', 'examples', 'fac.wasm'), 'rb').read()))
    return out


def hash_prefix_probe(chk, w2c2, root):
    """-r decides 'static' by comparing SHA-1 digests of the bodies. A comparison that looks at fewer than all 20 bytes only shows on
    bodies whose digests share a prefix: pairs of DIFFERENT bodies with equal 4-byte (quick: a few, birthday search over ~4*10^5
    candidate bodies) digest prefixes are constructed; module = one side of each pair, reference = the other side (plus one body that
    really is identical). Only the identical body may be classified static."""
    import hashlib
    seen = {}
    pairs = []
    want = 6
    for n in range(1, 600000):
        body = b'\x00\x41' + wasm.sleb(n, 0) + b'\x0b'
        k4 = hashlib.sha1(body).digest()[:4]
        if k4 in seen and seen[k4] != body:
            pairs.append((seen[k4], body))
            if len(pairs) >= want:
                break
        else:
            seen[k4] = body
    if len(pairs) < 2:
        chk.log('note: no digest-prefix collisions found; hash-prefix probe skipped')
        return
    common = b'\x00\x41\x2a\x0b'
    def mod(bodies):
        m = Module()
        t = m.add_type([], [I32])
        for raw in bodies:
            m.funcs.append(wasm.Func(t, raw=raw))
        m.exports.append(('f0', 'func', 0))
        return m.encode()
    mb = mod([a for a, _ in pairs] + [common])
    rb = mod([b for _, b in pairs] + [common])
    d = os.path.join(root, 'hashprefix')
    os.makedirs(d, exist_ok=True)
    mp, rp = os.path.join(d, 'hp.wasm'), os.path.join(d, 'hpref.wasm')
    open(mp, 'wb').write(mb)
    open(rp, 'wb').write(rb)
    nf = len(pairs) + 1
    for opts in (['-r', rp, '-f', '1'], ['-r', rp, '-f', '2', '-t', '2'], ['-r', rp, '-f', '1', '-p', '-m']):
        r, files = run_variant(w2c2, mp, os.path.join(d, 'o'), opts)
        chk.ev()
        chk.distinct(('hash-prefix', tuple(o for o in opts if o.startswith('-'))))
        if r.rc != 0:
            chk.violation('C09:exit:%s:-r' % r.rc, 'translator failed on the digest-prefix module: %s' % r.err[-300:], {'module.wasm': mb, 'reference.wasm': rb})
            continue
        funcs, dups, where = all_functions(files)
        static = sorted(funcs[n][0] for n, fn in where.items() if fn.startswith('s') and PATTERN_IMPL.match(fn))
        bad = [i for i in static if i != nf - 1]
        if bad:
            chk.violation('C09:static-not-in-reference:digest-prefix', 'functions %s are classified static although the reference only holds DIFFERENT bodies whose SHA-1 digests share their first 4 bytes (options %s)' % (
                bad, ' '.join(o for o in opts if not o.startswith('/'))), {'module.wasm': mb, 'reference.wasm': rb})
    chk.observe('digest_prefix_pairs', len(pairs), 'set')
    shutil.rmtree(d, ignore_errors=True)


def debug_name_probes(chk, w2c2, root):
    """Separately keyed probes (Appendix A) for -g with name sections whose names interact with other symbols or with the
    assembler. Each case is a valid module; with and without -g (and with -m / -f) the output must compile with gcc and clang and
    the exports must return the same values.
      collide-*   : a debug name that spells the C symbol of an export (of another function, of an earlier export of the same
                    function, of its only export, after escaping), or that is shared by two functions
      chars-*     : debug names as real toolchains write them (Rust/C++ paths, templates, spaces, punctuation, quotes)"""
    def mk(names, exports):
        m = Module()
        for i in range(3):
            m.add_func([], [I32], [], [('i32.const', 40 + i)])
        m.add_func([], [I32], [], [('call', 0), ('call', 1), ('i32.add',), ('call', 2), ('i32.add',)])
        for nm, idx in exports:
            m.exports.append((nm, 'func', idx))
        m.exports.append(('sum', 'func', 3))
        m.func_names = names
        return m
    cases = [
        ('collide-other-export', mk({1: 'calc'}, [('calc', 0)])),
        ('collide-own-earlier-export', mk({0: 'calc', 1: 'helper', 2: 'run'}, [('calc', 0), ('run', 2), ('calc_alias', 0)])),
        ('collide-own-export', mk({0: 'calc'}, [('calc', 0)])),
        ('collide-after-escaping', mk({1: 'aX2Eb'}, [('a.b', 0)])),
        ('collide-underscores', mk({1: 'a___b'}, [('a__b', 0)])),
        ('collide-two-functions', mk({1: 'dup', 2: 'dup'}, [('x', 0)])),
        ('collide-memory-export-style', mk({1: 'sum'}, [('y', 0)])),
    ]
    # exports of other kinds: an exported MEMORY is a C function <module>_<name> too; exported globals / tables are not
    for tag_, ename, ekind, dname in (('collide-memory-export', 'memory', 'memory', 'memory'), ('collide-memory-export-escaped', 'mem.0', 'memory', 'memX2E0'),
                                      ('collide-global-export', 'counter', 'global', 'counter'), ('collide-table-export', 'tbl', 'table', 'tbl')):
        mm = mk({1: dname, 2: 'plain'}, [('x', 0)])
        mm.mems.append((1, None, False))
        mm.globals.append((I32, True, [('i32.const', 5)]))
        mm.tables.append((2, None))
        mm.exports.append((ename, ekind, 0))
        cases.append((tag_, mm))
    for i, nm in enumerate(['core::fmt::write', 'f(int&&)', '<T as U>::f', 'a b', 'a%b', 'a,b', 'a;b', 'a#b', 'a@plt', 'a\\b', 'a"b', 'a\nb', 'caf\u00e9', '$x', 'a.b', '0start']):
        cases.append(('chars-%02d' % i, mk({1: nm, 2: 'plain'}, [('x', 0)])))
    pdir = os.path.join(root, 'gname')
    os.makedirs(pdir, exist_ok=True)

    def run_case(item):
        tag, m = item
        b = m.encode()
        plan = e2e.Plan(m)
        script = 'I 0\n' + ''.join('c 0 %d\n' % plan.fk(e[0]) for e in m.exports if e[1] == 'func')
        res = []
        base = None
        for oi, opts in enumerate(([], ['-g'], ['-g', '-m'], ['-g', '-f', '2'], ['-g', '-p'])):
            for cc in ('gcc', 'clang'):
                st, out, _ = e2e.build_and_run(w2c2, b, plan, script, os.path.join(pdir, '%s-%d-%s' % (tag, oi, cc)), cc=cc, cflags=['-O0'], opts=opts)
                if not opts and cc == 'gcc':
                    base = (st, out)
                    if st != 'ok':
                        return tag, b, [('C09:harness:gname-baseline', '%s: baseline without -g failed: %s' % (tag, str(out)[:300]))], 0
                    continue
                if st != 'ok' or out != base[1]:
                    kind = 'label-collides-with-symbol' if tag.startswith('collide') else 'label-characters'
                    res.append(('C09:-g:%s:%s' % (kind, tag if tag.startswith('collide') else cc),
                                'name section %r, exports %s, options %s, %s: %s' % (m.func_names, [e[0] for e in m.exports], ' '.join(opts), cc,
                                                                                     ('stage %s: %s' % (st, str(out)[-300:])) if st != 'ok' else 'results differ from the translation without -g')))
        return tag, b, res, 9

    for tag, b, res, n in env.pmap(run_case, cases):
        chk.ev(n)
        chk.distinct(('gname', tag))
        chk.observe('debug_name_probe_' + tag.split('-')[0])
        seen = set()
        for key, what in res:
            if key not in seen:
                seen.add(key)
                chk.violation(key, what, {'module.wasm': b})
    shutil.rmtree(pdir, ignore_errors=True)


def blocked_output_probe(chk, w2c2, root):
    """One of the implementation files cannot be created (a directory of that name is in the way). Whatever the options, a run that
    reports success must have emitted every function exactly once; reporting failure is fine."""
    m = hostile.many_funcs(23, 'all')
    b = m.encode()
    nf = len(m.funcs)
    mdir = os.path.join(root, 'blocked')
    os.makedirs(mdir, exist_ok=True)
    mpath = os.path.join(mdir, 'blk.wasm')
    open(mpath, 'wb').write(b)
    for f, t in ((4, 1), (4, 4), (1, 8), (6, 2), (3, 16)):
        nfiles = (nf + f - 1) // f
        for kpos in (0, 1, nfiles // 2, nfiles - 1):
            d = os.path.join(mdir, 'f%d-t%d-k%d' % (f, t, kpos))
            shutil.rmtree(d, ignore_errors=True)
            os.makedirs(os.path.join(d, 's%010d.c' % kpos))
            r = env.run([w2c2, '-f', str(f), '-t', str(t), mpath, os.path.join(d, 'blk.c')], cwd=d, env=env.SAN_ENV, timeout=120)
            chk.ev()
            chk.distinct(('blocked-output', f, t, kpos))
            if r.rc == 0:
                files = {fn: open(os.path.join(d, fn), 'rb').read() for fn in os.listdir(d) if os.path.isfile(os.path.join(d, fn)) and fn.endswith('.c')}
                funcs, dups, where = all_functions(files)
                got = set(v[0] for v in funcs.values())
                if dups or got != set(range(nf)):
                    chk.violation('C09:emit-count:blocked-output', 'options -f %d -t %d with s%010d.c impossible to create: the translator reports success but functions %s are not emitted (duplicates %s)' % (
                        f, t, kpos, sorted(set(range(nf)) - got)[:6], dups[:3]), {'module.wasm': b, 'cmd.txt': 'mkdir s%010d.c; w2c2 -f %d -t %d blk.wasm blk.c' % (kpos, f, t), 'stderr.txt': r.err[-2000:]})
            elif r.rc is not None and r.rc < 0:
                chk.violation('C09:signal:blocked-output', 'options -f %d -t %d with s%010d.c impossible to create: translator killed by signal %d' % (f, t, kpos, -r.rc), {'module.wasm': b, 'stderr.txt': r.err[-2000:]})
            shutil.rmtree(d, ignore_errors=True)


def main(chk):
    quick = chk.tier == 'quick'
    rnd = env.rng('c09')
    w2c2 = env.build_translator('plain')
    compat_nop = env.build_translator('plain', defs=['-DHAS_PTHREAD=0', '-DHAS_UNISTD=1', '-DHAS_GETOPT=0', '-DHAS_LIBGEN=0', '-DHAS_STRDUP=0', '-DHAS_GLOB=1'], tag='compat-nopthread')
    compat_bundled = env.build_translator('plain', defs=['-DHAS_PTHREAD=1', '-DHAS_UNISTD=1', '-DHAS_GETOPT=0', '-DHAS_LIBGEN=0', '-DHAS_STRDUP=0', '-DHAS_GLOB=1'], tag='compat-bundled')
    root = env.subdir('c09')
    mods = variant_modules(rnd, quick)
    reps = 3 if quick else 10

    def do_module(item):
        mi, (tag, b, ctx) = item
        r0 = env.rng('c09-mod', mi)
        res = []  # list of violation tuples (key, what, files)
        obs = []
        mdir = os.path.join(root, 'm%d' % mi)
        os.makedirs(mdir, exist_ok=True)
        mname = ''.join(ch for ch in tag if ch.isalnum())
        mpath = os.path.join(mdir, mname + '.wasm')
        open(mpath, 'wb').write(b)
        try:
            dm = wasm.decode(b, keep_raw=True)
        except Exception as ex:
            return [('C09:harness-decode', 'cannot decode %s: %s' % (tag, ex), {})], obs, 0
        nimp = dm.n_imported('func')
        nf = len(dm.funcs)
        expected = set(range(nimp, nimp + nf))
        refs = reference_variants(r0, b)
        refpaths = {}
        for rt, rb in refs:
            rp = os.path.join(mdir, 'ref_%s.wasm' % rt)
            open(rp, 'wb').write(rb)
            refpaths[rt] = (rp, rb)
        fvals = sorted(set([1, 2, 3, max(1, (nf + 1) // 2), max(1, nf - 1), max(1, nf), nf + 1, 0]))
        tvals = [1, 2, 3, 8, 16, 64]
        points = []
        for fmt in ([], ['-p'], ['-m'], ['-g'], ['-p', '-m', '-g']):
            points.append(fmt + ['-t', '1'])
        for f in fvals:
            points.append(['-f', str(f), '-t', str(r0.choice(tvals))])
        for t in tvals:
            points.append(['-t', str(t), '-f', str(r0.choice(fvals))])
        points.append(['-d', 'gnu-ld', '-t', '2'])
        points.append(['-d', 'gnu-ld', '-f', '2', '-p', '-t', '3'])
        for rt in refpaths:
            points.append(['-r', 'REF:' + rt, '-f', str(r0.choice([1, 2, 3])), '-t', str(r0.choice(tvals))])
            points.append(['-r', 'REF:' + rt, '-t', '2'] + r0.choice([[], ['-p'], ['-g', '-m']]))
        # extreme values of -f (one file per 2^32-1 functions is the same as one file): alone and with a reference module
        for fv in ('4294967295', '4294967294', '2147483648'):
            points.append(['-f', fv, '-t', '2'])
            rt = r0.choice(list(refpaths))
            points.append(['-r', 'REF:' + rt, '-f', fv, '-t', str(r0.choice(tvals))])
        for _ in range(4 if quick else 12):
            o = []
            for flag in ('-p', '-m', '-g'):
                if r0.random() < 0.4:
                    o.append(flag)
            o += ['-f', str(r0.choice(fvals)), '-t', str(r0.choice(tvals))]
            if r0.random() < 0.3:
                o += ['-d', 'gnu-ld']
            if r0.random() < 0.3:
                o += ['-r', 'REF:' + r0.choice(list(refpaths))]
            points.append(o)
        baselines = {}

        def baseline(fk):
            if fk not in baselines:
                r, files = run_variant(w2c2, mpath, os.path.join(mdir, 'base' + ''.join(fk)), list(fk) + ['-t', '1'])
                baselines[fk] = (r, files, all_functions(files)[0] if r.rc == 0 else None)
            return baselines[fk]

        nruns = 0
        for pi, opts in enumerate(points):
            ropts = [refpaths[o[4:]][0] if o.startswith('REF:') else o for o in opts]
            d = os.path.join(mdir, 'v%d' % pi)
            r, files = run_variant(w2c2, mpath, d, ropts)
            nruns += 1
            desc = '%s (%d funcs) options %s' % (tag, nf, ' '.join(opts))
            wf = {'module.wasm': b, 'cmd.txt': 'w2c2 ' + ' '.join(opts), 'stderr.txt': r.err[-3000:]}
            obs.append(tuple(opts))
            if r.rc != 0 or r.timeout:
                res.append(('C09:exit:%s:%s' % ('timeout' if r.timeout else r.rc, ' '.join(o for o in opts if o.startswith('-'))), 'translator failed on %s: %s' % (desc, r.err[-400:]), wf))
                continue
            funcs, dups, where = all_functions(files)
            got = set(v[0] for v in funcs.values())
            if dups or got != expected:
                res.append(('C09:emit-count:%s' % ' '.join(o for o in opts if o.startswith('-')),
                            '%s: duplicates %s missing %s extra %s' % (desc, dups[:5], sorted(expected - got)[:5], sorted(got - expected)[:5]), wf))
            br, bfiles, bfuncs = baseline(fmt_key(opts))
            if bfuncs is not None:
                if {n: v[1] for n, v in funcs.items()} != {n: v[1] for n, v in bfuncs.items()}:
                    bad = [n for n in funcs if n in bfuncs and funcs[n][1] != bfuncs[n][1]][:3]
                    res.append(('C09:text-differs:%s' % ' '.join(o for o in opts if o.startswith('-') and o not in ('-p', '-m', '-g')),
                                '%s: function texts differ from the -t 1 single-file baseline, e.g. %s' % (desc, bad),
                                dict(wf, variant=('\n'.join(funcs[n][1] for n in bad)), baseline='\n'.join(bfuncs[n][1] for n in bad))))
                # header must be identical to the baseline header for equal formatting options
                hb = [f for f in bfiles if f.endswith('.h')]
                if hb and '-d' not in opts and files.get(hb[0]) != bfiles[hb[0]]:  # (the header declares data segments per -d mode)
                    res.append(('C09:header-differs:%s' % ' '.join(o for o in opts if o.startswith('-') and o not in ('-p', '-m', '-g')), '%s: header differs from baseline' % desc, wf))
            # g: static only if byte-identical body in reference
            ref = [o for o in opts if o.startswith('REF:')]
            if ref:
                rb = refpaths[ref[0][4:]][1]
                try:
                    rbodies = set(wasm.decode(rb, keep_raw=True).raw_bodies)
                except Exception:
                    rbodies = None
                if rbodies is not None:
                    for n, fn in where.items():
                        if fn.startswith('s') and PATTERN_IMPL.match(fn):
                            idx = funcs[n][0] - nimp
                            if dm.raw_bodies[idx] not in rbodies:
                                res.append(('C09:static-not-in-reference', '%s: function %s placed in %s but the reference has no byte-identical body' % (desc, n, fn), wf))
                                break
                    # single main file (all static) is only allowed when no function is dynamic
                    only_main = not any(PATTERN_IMPL.match(fn) for fn in files)
                    if only_main and any(dm.raw_bodies[i] not in rbodies for i in range(nf)) and funcs:
                        pass  # functions in the main file are neither s nor d: not judged
            # d-mode: in external data-segment modes every segment's bytes must sit at the offset the init code uses
            if 'gnu-ld' in opts and 'datasegments' in files and dm.datas:
                main_c = files.get(mname + '.c', b'').decode('latin-1')
                blob = files['datasegments']
                loads = [(int(a), int(b_)) for a, b_ in re.findall(r'LOAD_DATA\([^;]*?ds\s*\+\s*(\d+),\s*(\d+)\)', main_c)]
                li = 0
                for k, seg in enumerate(dm.datas):
                    if seg['mode'] == 'passive':
                        mm = re.search(r'\bd%d\s*=\s*ds\s*\+\s*(\d+)' % k, main_c)
                        off = int(mm.group(1)) if mm else None
                    else:
                        off = loads[li][0] if li < len(loads) else None
                        li += 1
                    if off is None or blob[off:off + len(seg['bytes'])] != seg['bytes']:
                        res.append(('C09:dataseg-offset:%s' % seg['mode'], '%s: data segment %d (%s, %d bytes) is addressed at ds+%s but its bytes are not there in the datasegments file' % (
                            desc, k, seg['mode'], len(seg['bytes']), off), wf))
                        break
            # e: every emitted .c compiles on its own
            for fn in files:
                if fn.endswith('.c'):
                    cr = env.run(['gcc', '-fsyntax-only', '-std=gnu89', '-w', '-DWASM_THREADS_PTHREADS', '-I', e2e.base_include(), '-I', d, os.path.join(d, fn)], timeout=300)
                    if cr.rc != 0:
                        res.append(('C09:standalone-compile:%s' % ('main' if not PATTERN_IMPL.match(fn) else fn[0]), '%s: %s does not compile on its own: %s' % (desc, fn, cr.err[-500:]), wf))
                        break
            # d: determinism across repetitions (same options) and across thread counts
            h0 = {f: hashlib.sha256(c).hexdigest() for f, c in files.items()}
            if pi % 4 == 0:
                for rep in range(reps):
                    topts = list(ropts)
                    if '-t' in topts and rep > 0:
                        topts[topts.index('-t') + 1] = str(r0.choice(tvals))
                    r2, files2 = run_variant(w2c2, mpath, os.path.join(mdir, 'rep'), topts)
                    nruns += 1
                    h2 = {f: hashlib.sha256(c).hexdigest() for f, c in files2.items()}
                    if r2.rc != 0 or h2 != h0:
                        diff_files = sorted(f for f in set(h0) | set(h2) if h0.get(f) != h2.get(f))[:4]
                        res.append(('C09:nondeterministic:%s' % ' '.join(o for o in topts if o.startswith('-')), '%s: repetition with %s differs in %s (rc %s)' % (desc, ' '.join(topts[:6]), diff_files, r2.rc), wf))
                        break
            # d': other translator build configurations
            if pi % 5 == 0:
                for cname, cexe in (('nopthread', compat_nop), ('bundled', compat_bundled)):
                    copts = list(ropts)
                    if cname == 'nopthread' and '-t' in copts:
                        i = copts.index('-t')
                        del copts[i:i + 2]
                    r3, files3 = run_variant(cexe, mpath, os.path.join(mdir, 'compat'), copts)
                    nruns += 1
                    h3 = {f: hashlib.sha256(c).hexdigest() for f, c in files3.items()}
                    if r3.rc != 0 or h3 != h0:
                        diff_files = sorted(f for f in set(h0) | set(h3) if h0.get(f) != h3.get(f))[:4]
                        res.append(('C09:build-config:%s' % cname, '%s: translator built %s gives rc %s / different files %s: %s' % (desc, cname, r3.rc, diff_files, r3.err[-200:]), wf))
            shutil.rmtree(d, ignore_errors=True)
        # f: behaviour of sampled variants
        if ctx is not None:
            c, k = ctx
            if c == 'dseg':
                dmod, kinds = dataseg_module(env.rng('c09-dseg', k))
                plan = e2e.Plan(dmod)
                sl = ['I 0', 'w 0 0 0 2048']
                for si, (kd, ln) in enumerate(kinds):
                    if kd == 'passive':
                        sl.append('c 0 %d %s 0x0 %s' % (plan.fk('init%d' % si), hex(3000 + 400 * si), hex(ln)))
                        sl.append('c 0 %d %s %s %s' % (plan.fk('init%d' % si), hex(6000 + 400 * si), hex(ln // 2), hex(ln - ln // 2)))
                sl += ['w 0 0 2900 4000', 'm 0 0']
                script = '\n'.join(sl) + '\n'
            else:
                plan = e2e.Plan(c.mod)
                script, steps = progs.program_script(c, plan, env.rng('c09-script', k), vectors=4)
            bd = os.path.join(mdir, 'beh-base')
            st, base_out, _ = e2e.build_and_run(w2c2, b, plan, script, bd, name=mname, opts=['-t', '1'], cflags=['-O1'])
            if st != 'ok':
                res.append(('C09:behaviour-baseline:%s' % st, '%s: baseline build failed: %s' % (tag, str(base_out)[:500]), {'module.wasm': b}))
            else:
                bvars = [['-f', '1', '-t', '4'], ['-p', '-m', '-t', '2'], ['-f', '3', '-t', '16', '-g'], ['-d', 'gnu-ld', '-f', '2', '-t', '2'],
                         ['-r', refpaths['changed'][0] if 'changed' in refpaths else mpath, '-f', '2', '-t', '3'], ['-p', '-g', '-m', '-f', '4', '-t', '8', '-d', 'gnu-ld']]
                for vi, vo in enumerate(bvars if not quick else bvars[:4] + bvars[5:]):
                    vd = os.path.join(mdir, 'beh%d' % vi)
                    link = []
                    if 'gnu-ld' in vo:
                        # the data segments object must exist before linking: translate first, then ld -r -b binary
                        t = e2e.translate(w2c2, b, vd, mname, vo)
                        if t.rc == 0:
                            lr = env.run(['ld', '-r', '-b', 'binary', 'datasegments', '-o', 'ds.o'], cwd=vd)
                            link = [os.path.join(vd, 'ds.o')]
                    st2, out2, _ = e2e.build_and_run(w2c2, b, plan, script, vd, name=mname, opts=vo, cflags=['-O1'], link=link)
                    nruns += 1
                    if st2 != 'ok':
                        res.append(('C09:behaviour:%s:%s' % (st2, ' '.join(o for o in vo if o.startswith('-'))), '%s options %s: %s' % (tag, ' '.join(vo), str(out2)[:800]), {'module.wasm': b, 'script.txt': script}))
                    elif out2 != base_out:
                        dl = [(x, y) for x, y in zip(base_out, out2) if x != y][:2]
                        res.append(('C09:behaviour:differs:%s' % ' '.join(o for o in vo if o.startswith('-')), '%s options %s: output differs from baseline: %s' % (tag, ' '.join(vo), dl), {'module.wasm': b, 'script.txt': script}))
                    shutil.rmtree(vd, ignore_errors=True)
        shutil.rmtree(mdir, ignore_errors=True)
        return res, obs, nruns

    for (mi, (tag, b, ctx)), (res, obs, nruns) in zip(enumerate(mods), env.pmap(do_module, list(enumerate(mods)))):
        chk.ev(nruns)
        h = env.sha(b)[:12]
        for o in obs:
            chk.distinct((h, o))
            for x in o:
                if x.startswith('-'):
                    chk.observe('opt_' + x)
        for key, what, files in res:
            chk.violation(key, what, files)
        if mi < 2:
            chk.sample({'module': tag, 'option_points': [' '.join(o) for o in obs[:6]]})

    # ---- probe: memory.init naming an ACTIVE segment (valid; only length 0 is meaningful) under -d gnu-ld
    pm, pk = dataseg_module(env.rng('c09-dseg-probe'), init_active=True)
    pd = os.path.join(root, 'probe-init-active')
    os.makedirs(pd, exist_ok=True)
    pp = os.path.join(pd, 'pa.wasm')
    open(pp, 'wb').write(pm.encode())
    for popts in (['-d', 'gnu-ld'], ['-d', 'gnu-ld', '-f', '1', '-t', '2']):
        pr, pfiles = run_variant(w2c2, pp, os.path.join(pd, 'o'), popts)
        chk.ev()
        chk.distinct(('probe-init-active', tuple(popts)))
        bad = None
        if pr.rc != 0:
            bad = 'translator exit %s' % pr.rc
        else:
            for fn in pfiles:
                if fn.endswith('.c'):
                    cr = env.run(['gcc', '-fsyntax-only', '-std=gnu89', '-w', '-I', e2e.base_include(), '-I', os.path.join(pd, 'o'), os.path.join(pd, 'o', fn)], timeout=120)
                    if cr.rc != 0:
                        bad = '%s does not compile: %s' % (fn, cr.err[-300:])
                        break
        if bad:
            chk.violation('C09:gnu-ld:memory.init-of-active-segment', 'module whose memory.init names an active data segment, options %s: %s' % (' '.join(popts), bad),
                          {'module.wasm': pm.encode(), 'cmd.txt': 'w2c2 ' + ' '.join(popts)})
    shutil.rmtree(pd, ignore_errors=True)

    debug_name_probes(chk, w2c2, root)
    hash_prefix_probe(chk, w2c2, root)
    blocked_output_probe(chk, w2c2, root)

    # ---- h: TSan translator with yields at the hand-off points
    tsan = env.build_translator('tsan', guard=True)
    tmods = [(t, b) for t, b, c in mods if t in ('coremark', 'manyfall', 'gen0', 'dino')]
    truns = 120 if quick else 1000
    tdir = os.path.join(root, 'tsan')
    os.makedirs(tdir, exist_ok=True)
    for t, b in tmods:
        open(os.path.join(tdir, t + '.wasm'), 'wb').write(b)

    def tsan_run(i):
        r0 = env.rng('c09-tsan', i)
        t, b = tmods[i % len(tmods)]
        d = os.path.join(tdir, 'r%d' % i)
        threads = r0.choice([2, 2, 3, 4, 8, 16])
        f = r0.choice([1, 1, 2, 3])
        opts = ['-t', str(threads), '-f', str(f)] + r0.choice([[], ['-p'], ['-g'], ['-r', os.path.join(tdir, tmods[(i + 1) % len(tmods)][0] + '.wasm')]])
        log = os.path.join(tdir, 'log%d.txt' % i)
        r, files = run_variant(tsan, os.path.join(tdir, t + '.wasm'), d, opts,
                               envx={'W2C2_VERIF_LOG': log, 'W2C2_VERIF_SEED': str(env.SEED * 100003 + i), 'W2C2_VERIF_DELAY': '1'}, timeout=300)
        assign = ''
        if os.path.exists(log):
            assign = open(log).read()
            os.remove(log)
        shutil.rmtree(d, ignore_errors=True)
        return i, t, opts, r, assign

    vectors = set()
    for i, t, opts, r, assign in env.pmap(tsan_run, range(truns)):
        chk.ev()
        chk.observe('tsan_runs')
        vec = tuple(tuple(l.split()) for l in assign.splitlines())
        sig = tuple(sorted((x[2], x[3], x[0]) for x in vec if len(x) == 4))
        if sig:
            vectors.add((t, tuple(opts[:4]), sig))
        wf = {'cmd.txt': 'w2c2(tsan) %s %s.wasm' % (' '.join(opts), t), 'stderr.txt': r.err[-8000:]}
        if r.timeout:
            chk.violation('C09:hang:-t', 'translator (TSan build, yields injected) did not terminate: %s %s' % (t, ' '.join(opts)), wf)
            continue
        reps_ = san.parse_tsan(r.err, env.REPO)
        for rp in reps_:
            if rp['in_repo'] or True:
                chk.violation('C09:' + rp['key'], 'ThreadSanitizer report in translator run %s %s: %s' % (t, ' '.join(opts), rp['text'][:600]), wf)
        if r.rc != 0 and not reps_:
            chk.violation('C09:tsan-exit:%s' % r.rc, 'translator (TSan build) exit %s on %s %s: %s' % (r.rc, t, ' '.join(opts), r.err[-300:]), wf)
    for v in vectors:
        chk.distinct(('assign',) + v)
    chk.observe('distinct_task_thread_assignments', len(vectors), 'set')
    if len(vectors) < (20 if quick else 100):
        chk.inconclusive('only %d distinct task->thread assignment vectors observed (floor %d)' % (len(vectors), 20 if quick else 100))
    chk.assume('gcc -fsyntax-only stands for "compiles on its own"; behaviour equality is sampled, text equality is checked on every option point')


PATTERN_IMPL = re.compile(r'^[sd][0-9]{10}\.c$')


def replay(chk, path):
    print(open(os.path.join(path, 'cmd.txt')).read())
    chk.ev(2)
    chk.distinct(1)
    chk.distinct(2)
