"""C14 WASI path operations act on the resolved path; directory listings are complete.

a. resolvePath() is called directly under ASan (guest paths not NUL terminated, flush against the end of a heap block,
   result buffer exactly PATH_MAX bytes) and compared with a 10-line model.
b. path operations (create/remove directory, unlink, rename, symlink, readlink, filestat) run through the trampolines on
   a real tree and, first, through the kernel on a twin tree; errno (independent table), delivered bytes and finally the two
   trees (names, types, link targets, contents) must agree. Guest paths end exactly at the end of linear memory.
c. fd_readdir: a consumer following wasi-libc's protocol (built into the driver) lists directories with per-call random
   buffer sizes, restarts from cookie 0 on the same descriptor and resumes from previously returned cookies; oracle = the
   host's own listing and lstat.
"""
import os, shutil, stat, errno
from vlib import env, e2e, wasm, wasih, san
from vlib.wasih import wasi_errno_of, WASI_NUM

LEVEL = 'exploration'
RULE = ('(a) resolvePath cases: distinct = (directory length, path length, absolute, trailing slash) classes near the limits; (b) tree '
        'histories: evaluation = one path operation compared with the POSIX twin, distinct = (operation, abi, outcome, target kind); '
        '(c) listings: evaluation = one listing pass, distinct = (entry count, pass kind, buffer policy)')

MEM_END = 65536 * 4
ARENA = 65536 * 2
PATH_MAX = 4096


# ------------------------------------------------------------------ (a)
def part_a(chk, root, quick):
    d = os.path.join(root, 'rp')
    os.makedirs(d)
    exe = os.path.join(d, 'probe')
    r = env.run(['gcc', '-O1', '-g', '-fsanitize=address,undefined', '-fno-sanitize-recover=all', '-w'] + env.WASI_DEFS +
                ['-I', e2e.base_include(), '-I', os.path.join(env.REPO, 'wasi'), os.path.join(env.VERIF, 'harness', 'resolvepath_probe.c'),
                 os.path.join(env.REPO, 'wasi', 'wasi.c'), '-o', exe, '-lpthread', '-lm'], timeout=300)
    if r.rc != 0:
        raise env.HarnessError('resolvepath probe build failed: ' + r.err[-2000:])
    n = 20000 if quick else 300000
    per = n // 8

    def one(i):
        return env.run([exe, str(env.SEED * 1000 + i), str(per)], env=env.SAN_ENV, timeout=600)

    for i, rr in enumerate(env.pmap(one, range(8))):
        files = {'cmd.txt': 'resolvepath_probe %d %d' % (env.SEED * 1000 + i, per), 'stdout.txt': rr.out[-4000:], 'stderr.txt': rr.err[-6000:]}
        reps = san.parse(rr.err)
        if reps:
            chk.violation('C14:resolvePath:' + reps[0][0], 'resolvePath under ASan: %s' % reps[0][1], files)
            continue
        summ = [l for l in rr.out.splitlines() if l.startswith('SUMMARY')]
        for l in rr.out.splitlines():
            if l.startswith('VIOL'):
                chk.violation('C14:resolvePath:' + l.split(' ')[1], 'resolvePath disagrees with the model: %s' % l, files)
        if not summ:
            chk.violation('C14:resolvePath:crash', 'probe died: rc %s %s' % (rr.rc, rr.err[-300:]), files)
            continue
        kv = dict(x.split('=') for x in summ[0].split(' ')[1:])
        chk.ev(int(kv['cases']))
        for k2 in ('accepted', 'rejected', 'boundary_rejects', 'empty', 'absolute', 'trailing', 'plain'):
            chk.observe('resolvePath_' + k2, int(kv[k2]))
        chk.distinct(('resolvePath-batch', i, summ[0]))
    chk.sample({'part': 'a', 'case': 'directory of length PATH_MAX-1-k with/without trailing slash joined with a path of length around the limit'})


# ------------------------------------------------------------------ (b)
def make_tree(root):
    os.makedirs(os.path.join(root, 'd1', 'd2'))
    os.makedirs(os.path.join(root, 'empty'))
    os.makedirs(os.path.join(root, 'full'))
    for n in ('f1', 'f2', 'd1/g1', 'd1/d2/h1', 'full/x', 'full/y'):
        with open(os.path.join(root, n), 'w') as f:
            f.write('content:%s\n' % n)
    os.symlink('f1', os.path.join(root, 'l1'))
    os.symlink('nowhere', os.path.join(root, 'dangling'))
    os.symlink('d1', os.path.join(root, 'ld'))
    os.symlink('loopb', os.path.join(root, 'loopa'))
    os.symlink('loopa', os.path.join(root, 'loopb'))


NAMES = ['f1', 'f2', 'd1', 'd1/g1', 'd1/d2', 'd1/d2/h1', 'empty', 'full', 'full/x', 'l1', 'ld', 'dangling', 'loopa', 'new1', 'new2', 'd1/new3',
         'missing/z', 'f1/z', 'ld/g1', 'x' * 255, 'y' * 256, 'd1/' + 'z' * 300, '.', 'd1/..', 'empty/', './f2', 'd1//g1']


def tree_state(root):
    out = {}
    for dp, dns, fns in os.walk(root):
        for n in dns + fns:
            p = os.path.join(dp, n)
            st = os.lstat(p)
            rel = os.path.relpath(p, root)
            if stat.S_ISLNK(st.st_mode):
                out[rel] = ('l', os.readlink(p))
            elif stat.S_ISDIR(st.st_mode):
                out[rel] = ('d',)
            else:
                out[rel] = ('f', open(p, 'rb').read())
    return out


def part_b_history(k, plan, exe, root, nops):
    r = env.rng('c14b', k)
    d = os.path.join(root, 'b%d' % k)
    A, B = os.path.join(d, 'A'), os.path.join(d, 'B')
    make_tree(A)
    make_tree(B)
    g = wasih.Guest(plan, ARENA)
    g.instantiate(preopens=[B], native={0} if r.random() < 0.25 else ())   # sometimes registered with a native descriptor
    g.poke(0, bytes(r.getrandbits(8) for _ in range(4096)))
    checks = []
    classes = []
    # a second directory descriptor (opened sub-directory)
    g.poke(0x1000, b'd1')
    g.call('path_open', [3, 0, 0x1000, 2, 2, 1 << 1, 1 << 1, 0, 0x1100])
    dirfds = {3: ('', ''), 4: ('d1', 'd1')}

    def put_path(p, slot):
        """place path bytes so that they END at MEM_END - slot*8192 (slot 0: flush against the end of memory)"""
        b = p if isinstance(p, bytes) else p.encode()
        end = MEM_END - slot * 9000
        a = end - len(b)
        if b:
            g.emit('P 0 0 %d %s' % (a, b.hex()), 'poke')
        return a, len(b)

    def pick():
        dfd = r.choice([3, 3, 4])
        base = dirfds[dfd][0]
        x = r.random()
        if x < 0.8:
            nm = r.choice(NAMES)
            gp = nm
            if dfd == 4:
                # relative to d1: strip prefix when possible, else go up
                gp = nm[3:].lstrip('/') if nm.startswith('d1/') else '../' + nm
            relA = os.path.join(base, gp)
            return dfd, gp, os.path.join(A, relA), 'rel'
        if x < 0.9:
            nm = r.choice(NAMES[:16])
            return dfd, os.path.join(B, nm), os.path.join(A, nm), 'abs'
        if x < 0.95:
            return dfd, '', None, 'empty'
        L = r.choice([PATH_MAX - len(B) - 3, PATH_MAX - len(B) - 2, PATH_MAX - len(B) - 1, PATH_MAX - len(B), PATH_MAX, PATH_MAX + 1, 2 * PATH_MAX, 6000])
        comp = 'abcdefghij' * 20
        s_ = '/'.join([comp] * (L // 200 + 1))[:max(1, L)]
        return dfd, s_, os.path.join(A, dirfds[dfd][0], s_), 'long'

    def kind_of(pa):
        try:
            st = os.lstat(pa)
        except OSError:
            return 'none'
        return 'link' if stat.S_ISLNK(st.st_mode) else 'dir' if stat.S_ISDIR(st.st_mode) else 'file'

    def expect_errno(err, kind):
        if kind == 'empty':
            return ('any-error',)
        if kind == 'long':
            # rejection of a result that does not fit: EINVAL or ENAMETOOLONG; if it fits, the host errno
            return ('either', wasi_errno_of(err), WASI_NUM['inval'], WASI_NUM['nametoolong'])
        return wasi_errno_of(err)

    for i in range(nops):
        op = r.choice(['mkdir', 'rmdir', 'unlink', 'rename', 'symlink', 'readlink', 'stat', 'stat', 'readlink'])
        abi = r.choice(['p1', 'un'])
        dfd, gp, pa, pk = pick()
        err = 0
        if op in ('mkdir', 'rmdir', 'unlink'):
            tk = kind_of(pa) if pa else 'none'
            if pa is not None:
                try:
                    {'mkdir': lambda: os.mkdir(pa, 0o755), 'rmdir': lambda: os.rmdir(pa), 'unlink': lambda: os.unlink(pa)}[op]()
                except OSError as ex:
                    err = ex.errno
            a, L = put_path(gp, 0)
            idx = g.call({'mkdir': 'path_create_directory', 'rmdir': 'path_remove_directory', 'unlink': 'path_unlink_file'}[op], [dfd, a, L], abi=abi)
            checks.append((idx, op, expect_errno(err, pk), gp[:60]))
            classes.append((op, abi, errno.errorcode.get(err, 'ok'), tk, pk))
        elif op == 'rename':
            dfd2, gp2, pa2, pk2 = pick()
            tk = kind_of(pa) if pa else 'none'
            tk2 = kind_of(pa2) if pa2 else 'none'
            if pa is not None and pa2 is not None:
                try:
                    os.rename(pa, pa2)
                except OSError as ex:
                    err = ex.errno
            a, L = put_path(gp, 0)
            a2, L2 = put_path(gp2, 1)
            idx = g.call('path_rename', [dfd, a, L, dfd2, a2, L2], abi=abi)
            pkk = 'empty' if 'empty' in (pk, pk2) else 'long' if 'long' in (pk, pk2) else pk
            checks.append((idx, op, expect_errno(err, pkk), '%s -> %s' % (gp[:40], gp2[:40])))
            classes.append((op, abi, errno.errorcode.get(err, 'ok'), tk, tk2, pkk))
        elif op == 'symlink':
            target = r.choice(['f1', '../x', 'no/such', '/abs/target', 'a' * 300, 'd1'])
            tk = kind_of(pa) if pa else 'none'
            if pa is not None:
                try:
                    os.symlink(target, pa)
                except OSError as ex:
                    err = ex.errno
            a, L = put_path(gp, 0)
            a2, L2 = put_path(target, 1)
            idx = g.call('path_symlink', [a2, L2, dfd, a, L], abi=abi)
            checks.append((idx, op, expect_errno(err, pk), gp[:60]))
            classes.append((op, abi, errno.errorcode.get(err, 'ok'), tk, pk))
        elif op == 'readlink':
            blen = r.choice([0, 1, 2, 3, 5, 64, 400])
            tk = kind_of(pa) if pa else 'none'
            data = b''
            if blen == 0 and pk in ('rel', 'abs'):
                err = errno.EINVAL  # readlink(2) with a zero-size buffer fails before looking at the path
            elif pa is not None:
                try:
                    data = os.readlink(pa).encode()
                except OSError as ex:
                    err = ex.errno
            a, L = put_path(gp, 0)
            g.poke(0x8000, b'\xc3' * 512)
            g.poke(0x8400, b'\xd4\xd4\xd4\xd4')
            idx = g.call('path_readlink', [dfd, a, L, 0x8000, blen, 0x8400], abi=abi)
            e = expect_errno(err, pk)
            checks.append((idx, op, e, gp[:60]))
            if err == 0 and pk in ('rel', 'abs'):
                n = min(len(data), blen)
                if blen == 0:
                    # readlink with a zero-size buffer is EINVAL on Linux; twin raised it already or not: keep generic
                    pass
                di = g.dump(0x8000, 512)
                d2 = g.dump(0x8400, 4)
                checks.append((di, 'readlink-data', (data[:n], n), d2))
            g.poke(0x8000, b'\0' * 512)
            g.poke(0x8400, b'\0' * 4)
            classes.append((op, abi, errno.errorcode.get(err, 'ok'), tk, 'short' if blen < len(data) else 'fits'))
        elif op == 'stat':
            flags = r.choice([0, 1])
            tk = kind_of(pa) if pa else 'none'
            st = None
            if pa is not None:
                try:
                    st = os.stat(pa) if flags & 1 else os.lstat(pa)
                except OSError as ex:
                    err = ex.errno
            a, L = put_path(gp, 0)
            g.poke(0x9000, b'\x66' * 72)
            idx = g.call('path_filestat_get', [dfd, flags, a, L, 0x9000], abi=abi)
            checks.append((idx, op, expect_errno(err, pk), '%s flags=%d' % (gp[:50], flags)))
            if err == 0 and pk in ('rel', 'abs'):
                di = g.dump(0x9000, 72)
                ft = 7 if stat.S_ISLNK(st.st_mode) else 3 if stat.S_ISDIR(st.st_mode) else 4
                checks.append((di, 'stat-data', (abi, ft, st.st_size, st.st_nlink), flags))
            g.poke(0x9000, b'\0' * 72)
            classes.append((op, abi, errno.errorcode.get(err, 'ok'), tk, 'follow' if flags else 'nofollow', pk))
    script = g.script()
    rr, out = wasih.run_script(exe, d, script)
    res = []
    err_txt = rr.err.decode('latin-1')
    files = {'script.txt': script, 'stderr.txt': err_txt[-6000:], 'log.txt': '\n'.join(out)}
    reps = san.parse(err_txt)
    if reps:
        last = g.lines[len(out) - 1] if 0 < len(out) <= len(g.lines) else ''
        fk = int(last.split(' ')[2]) if last.startswith('c ') else -1
        res.append(('C14:' + reps[0][0], 'history %d during %s: %s' % (k, plan.exports[fk]['name'] if fk >= 0 else last[:60], reps[0][1]), files))
    elif rr.rc != 0 or rr.timeout:
        res.append(('C14:crash:%s' % rr.rc, 'history %d: driver exit %s: %s' % (k, rr.rc, err_txt[-300:]), files))
    diverged = False
    for idx, kind, exp, detail in checks:
        if idx >= len(out):
            break
        line = out[idx]
        if kind == 'readlink-data':
            want, n = exp
            raw = bytes.fromhex(line.split(' ')[3])
            ln = int.from_bytes(bytes.fromhex(out[detail].split(' ')[3]), 'little') if detail < len(out) else None
            if raw[:n] != want or raw[n:] != b'\xc3' * (512 - n) or ln != n:
                res.append(('C14:path_readlink:data', 'history %d: readlink delivered %r (len cell %s), expected %r (%d bytes, rest untouched)' % (k, raw[:n + 4], ln, want, n), files))
            continue
        if kind == 'stat-data':
            abi, ft, size, nlink = exp
            raw = bytes.fromhex(line.split(' ')[3])
            u64 = lambda o: int.from_bytes(raw[o:o + 8], 'little')
            if abi == 'p1':
                got = (raw[16], u64(32), u64(24))
                end = 64
            else:
                got = (raw[16], u64(24), int.from_bytes(raw[20:24], 'little'))
                end = 56
            if got != (ft, size, nlink) or raw[end:] != b'\x66' * (72 - end):
                key = 'C14:path_filestat_get:%s' % ('symlink-followed' if ft == 7 and got[0] != 7 else 'fields')
                res.append((key, 'history %d: path_filestat_get lookupflags=%d gives (type,size,nlink)=%s, host %s says %s' % (k, detail, got, 'stat' if detail else 'lstat', (ft, size, nlink)), files))
            continue
        got = wasih.call_result(line)
        ok = False
        if isinstance(exp, tuple):
            if exp[0] == 'any-error':
                ok = isinstance(got, int) and got != 0
            else:
                ok = got in exp[1:]
        else:
            ok = got == exp
        if not ok:
            hosterr = exp if not isinstance(exp, tuple) else exp[1] if len(exp) > 1 else '?'
            name = wasih.WASI_ERRNO[hosterr] if isinstance(hosterr, int) and hosterr < len(wasih.WASI_ERRNO) else str(hosterr)
            res.append(('C14:errno:%s:%s' % (kind, name), 'history %d %s(%s): returned %s, POSIX twin says %s (%s)' % (k, kind, detail, got, exp, name), files))
            if exp == 0 or got == 0:
                diverged = True
                break
    if not diverged and not reps and rr.rc == 0:
        ta, tb = tree_state(A), tree_state(B)
        if ta != tb:
            ch = sorted(p for p in set(ta) | set(tb) if ta.get(p) != tb.get(p))[:4]
            res.append(('C14:tree-differs', 'history %d: trees differ after the history at %s' % (k, ch), files))
    shutil.rmtree(d, ignore_errors=True)
    return k, res, classes, script


def part_c_huge(k, plan, exe, root):
    """fd_readdir into guest buffers of 2 GiB and more (valid: the guest memory of this driver has 40000 pages)."""
    r = env.rng('c14huge', k)
    d = os.path.join(root, 'huge%d' % k)
    T = os.path.join(d, 'dir')
    os.makedirs(T)
    n = r.randint(3, 40)
    for i in range(n):
        nm = 'entry-%d-%s' % (i, 'x' * r.randint(0, 40))
        if i % 3 == 0:
            os.mkdir(os.path.join(T, nm))
        else:
            open(os.path.join(T, nm), 'w').write('y')
    g = wasih.Guest(plan, 4096)
    g.instantiate(preopens=[d])
    g.poke(0x100, b'dir')
    g.call('path_open', [3, 0, 0x100, 3, 2, (1 << 1) | (1 << 14), 0, 0, 0x200])
    fk = plan.fk('%s_fd_readdir' % r.choice(['p1', 'un']))
    size = [(1 << 31) - 1, 1 << 31, (1 << 31) + 24, 0x90000000, 0x7fffff00][k % 5]
    idx = g.emit('R 0 %d 4 %d %d %d %d 0 %d 50' % (fk, 0x10000, size, size, 0x800, r.getrandbits(32)), 'R')
    script = g.script()
    rr, out = wasih.run_script(exe, d, script, timeout=300)
    res = []
    files = {'script.txt': script, 'stderr.txt': rr.err.decode('latin-1')[-3000:], 'log.txt': '\n'.join(out)[-6000:]}
    if rr.rc != 0 or idx >= len(out):
        res.append(('C14:readdir:huge-buffer:crash', 'listing into a %#x-byte buffer: driver exit %s' % (size, rr.rc), files))
    else:
        toks = out[idx].split(' ')
        names = [bytes.fromhex(t.split(':')[0]) for t in toks[2:] if t.count(':') == 4]
        flags = [t for t in toks[2:] if t in ('TRAP', 'USED>SIZE', 'NOPROGRESS', 'MAXCALLS') or t.startswith('errno=') or t.startswith('OVERRUN')]
        want = sorted([x.encode() for x in os.listdir(T)] + [b'.', b'..'])
        if flags or sorted(names) != want:
            res.append(('C14:readdir:huge-buffer', 'listing %d entries into a %#x-byte buffer: consumer flags %s, %d names delivered (%d expected)' % (n, size, flags, len(names), len(want)), files))
    shutil.rmtree(d, ignore_errors=True)
    return k, res, [('huge-buffer', size)], script


# ------------------------------------------------------------------ (c)
def part_c_listing(k, plan, exe, root):
    r = env.rng('c14c', k)
    d = os.path.join(root, 'c%d' % k)
    T = os.path.join(d, 'dir')
    os.makedirs(T)
    n = r.choice([0, 1, 2, 3, 10, 50, 120, 400]) if k % 3 else r.randint(0, 60)
    maxname = 2  # '..'
    for i in range(n):
        L = r.choice([1, 2, 8, 20, 100, 200, 255]) if r.random() < 0.3 else r.randint(1, 30)
        nm = ('e%d_' % i + 'n' * 255)[:max(L, len('e%d_' % i))]
        maxname = max(maxname, len(nm))
        p = os.path.join(T, nm)
        t = r.random()
        if t < 0.6:
            open(p, 'w').write('x' * r.randint(0, 20))
        elif t < 0.8:
            os.mkdir(p)
        elif t < 0.9:
            os.symlink('target%d' % i, p)
        elif t < 0.94:
            os.mkfifo(p)
        else:
            # device nodes (never opened): a block and a character device, when this user may create them
            try:
                os.mknod(p, (stat.S_IFBLK if i % 2 else stat.S_IFCHR) | 0o600, os.makedev(7, 100 + i % 50) if i % 2 else os.makedev(1, 3))
            except OSError:
                os.mkfifo(p)
    g = wasih.Guest(plan, ARENA)
    g.instantiate(preopens=[d])
    g.poke(0x100, b'dir')
    g.call('path_open', [3, 0, 0x100, 3, 2, (1 << 1) | (1 << 14), 0, 0, 0x200])
    fd = 4
    fk = plan.fk('%s_fd_readdir' % r.choice(['p1', 'un']))
    mins = 24 + maxname
    passes = []
    # pass 1: full listing with per-call random buffer sizes; pass 2: again from cookie 0 on the same descriptor
    policy = r.choice(['tight', 'mixed', 'large'])
    maxs = {'tight': mins + r.randint(0, 8), 'mixed': mins + r.randint(0, 600), 'large': 65536 - 1200}[policy]
    passes.append(('full', g.emit('R 0 %d %d %d %d %d %d 0 %d 100000' % (fk, fd, 0x1000, mins, maxs, 0x800, r.getrandbits(32)), 'R')))
    passes.append(('restart', g.emit('R 0 %d %d %d %d %d %d 0 %d 100000' % (fk, fd, 0x1000, mins, maxs, 0x800, r.getrandbits(32)), 'R')))
    script1 = g.script()
    rr, out = wasih.run_script(exe, d, script1, tag='p1')
    res = []
    err_txt = rr.err.decode('latin-1')
    files = {'script.txt': script1, 'stderr.txt': err_txt[-5000:], 'log.txt': '\n'.join(out)[-20000:]}
    reps = san.parse(err_txt)
    if reps:
        res.append(('C14:readdir:' + reps[0][0], 'listing %d: %s' % (k, reps[0][1]), files))
    elif rr.rc != 0:
        res.append(('C14:readdir:crash', 'listing %d: driver exit %s %s' % (k, rr.rc, err_txt[-200:]), files))
    expected = {}
    for nm in os.listdir(T):
        st = os.lstat(os.path.join(T, nm))
        ty = 3 if stat.S_ISDIR(st.st_mode) else 4 if stat.S_ISREG(st.st_mode) else 7 if stat.S_ISLNK(st.st_mode) else 1 if stat.S_ISBLK(st.st_mode) else 2 if stat.S_ISCHR(st.st_mode) else 0
        expected[nm.encode()] = (st.st_ino, ty)
    expected[b'.'] = (os.lstat(T).st_ino, 3)
    expected[b'..'] = (os.lstat(d).st_ino, 3)

    def parse(line):
        toks = line.split(' ')
        ents = []
        flags = []
        for t in toks[2:]:
            if t.count(':') == 4:
                hx, nxt, ino, nl, ty = t.split(':')
                ents.append((bytes.fromhex(hx), int(nxt), int(ino), int(nl), int(ty)))
            elif t in ('TRAP', 'USED>SIZE', 'NOPROGRESS', 'MAXCALLS') or t.startswith('errno=') or t.startswith('OVERRUN'):
                flags.append(t)
        return ents, flags

    first_pass = None
    classes = []
    for kind, idx in passes:
        if idx >= len(out):
            continue
        ents, flags = parse(out[idx])
        classes.append((n if n < 10 else (n // 50) * 50, kind, policy))
        if flags:
            res.append(('C14:readdir:%s:%s' % (kind, flags[0].split('=')[0].split('@')[0]), 'listing %d (%d entries, %s pass, buffers %d..%d): consumer stopped with %s' % (k, n, kind, mins, maxs, flags), files))
            continue
        names = [e[0] for e in ents]
        missing = [x for x in expected if x not in names]
        dup = sorted(set(x for x in names if names.count(x) > 1))
        extra = [x for x in names if x not in expected]
        if missing or dup or extra:
            aspect = 'cookie0-restart' if kind == 'restart' and not names else 'missing' if missing else 'duplicate' if dup else 'extra'
            res.append(('C14:readdir:%s' % aspect, 'listing %d (%d entries, %s pass, buffers %d..%d): missing %d (e.g. %r) duplicates %r extra %r' % (
                k, n, kind, mins, maxs, len(missing), missing[:2], dup[:2], extra[:2]), files))
        for nm, nxt, ino, nl, ty in ents:
            if nm in expected and (ino, ty) != expected[nm] or nl != len(nm):
                res.append(('C14:readdir:record-fields', 'listing %d: entry %r has ino %d type %d namlen %d, host says %s' % (k, nm[:20], ino, ty, nl, expected.get(nm)), files))
                break
        if kind == 'full':
            first_pass = ents
    # resume: a second process cannot reuse cookies (telldir cookies are per stream), so resumption is exercised inside one
    # process: a full pass, then passes starting from cookies returned by it.
    if first_pass and len(first_pass) > 2 and not res:
        g2 = wasih.Guest(plan, ARENA)
        g2.instantiate(preopens=[d])
        g2.poke(0x100, b'dir')
        g2.call('path_open', [3, 0, 0x100, 3, 2, (1 << 1) | (1 << 14), 0, 0, 0x200])
        seed1 = r.getrandbits(32)
        i0 = g2.emit('R 0 %d %d %d %d %d %d 0 %d 100000' % (fk, fd, 0x1000, mins, maxs, 0x800, seed1), 'R')
        # the cookies of pass 1 are deterministic for an unchanged directory on this filesystem: take them from the first run
        picks = r.sample(range(len(first_pass)), min(4, len(first_pass)))
        idxs = []
        for pi in picks:
            idxs.append((pi, g2.emit('R 0 %d %d %d %d %d %d %d %d 100000' % (fk, fd, 0x1000, mins, maxs, 0x800, first_pass[pi][1], r.getrandbits(32)), 'R')))
        # a walk of single fd_readdir calls (one call each, exact buffer size) whose outcome is predicted from the sizes of the entries:
        # partial listing that stops in the middle -> resume at the END cookie (nothing) -> resume exactly where the partial one stopped
        # (at the cookie of its last complete entry, or of the entry that was cut off) -> ...
        end_cookie = first_pass[-1][1]
        walk = []

        def predict(i, S):
            # entries delivered completely by ONE call of size S resuming after entry i (i = -1: from the start)
            got, used = [], 0
            for e in first_pass[i + 1:]:
                need = 24 + len(e[0])
                if used + need > S:
                    break
                got.append(e[0])
                used += need
            return got
        for _ in range(6):
            a = r.randrange(-1, max(0, len(first_pass) - 2))
            S = mins + r.choice([0, 1, 30, 60, 200])
            walk.append((a, S))
            b = a + len(predict(a, S))
            walk.append(('end', S))
            for back in r.sample([b, min(b + 1, len(first_pass) - 1), a], 2):
                walk.append((back, mins + r.choice([0, 40, 300])))
        widx = []
        for a, S in walk:
            ck = end_cookie if a == 'end' else 0 if a == -1 else first_pass[a][1]
            widx.append((a, S, g2.emit('R 0 %d %d %d %d %d %d %d %d 1' % (fk, fd, 0x1000, S, S, 0x800, ck, r.getrandbits(32)), 'R')))
        script2 = g2.script()
        rr2, out2 = wasih.run_script(exe, d, script2, tag='p2')
        files2 = {'script.txt': script2, 'stderr.txt': rr2.err.decode('latin-1')[-4000:], 'log.txt': '\n'.join(out2)[-20000:]}
        reps2 = san.parse(rr2.err.decode('latin-1'))
        if reps2:
            res.append(('C14:readdir:' + reps2[0][0], 'listing %d resume: %s' % (k, reps2[0][1]), files2))
        elif i0 < len(out2):
            base, fl = parse(out2[i0])
            if [e[:2] for e in base] == [e[:2] for e in first_pass]:
                for pi, ix in idxs:
                    if ix >= len(out2):
                        continue
                    ents, flags = parse(out2[ix])
                    classes.append((n if n < 10 else (n // 50) * 50, 'resume', policy))
                    want = [e[0] for e in base[pi + 1:]]
                    got = [e[0] for e in ents]
                    if flags or got != want:
                        res.append(('C14:readdir:resume', 'listing %d: resuming from the cookie returned with entry #%d delivers %d entries (%r...), expected the %d that followed it (%r...) %s' % (
                            k, pi, len(got), got[:2], len(want), want[:2], flags), files2))
                        break
                for a, S, ix in widx:
                    if ix >= len(out2) or res:
                        break
                    ents, flags = parse(out2[ix])
                    flags = [f for f in flags if f != 'MAXCALLS']
                    want = [] if a == 'end' else predict(a, S)
                    got = [e[0] for e in ents]
                    classes.append((n if n < 10 else (n // 50) * 50, 'walk-end' if a == 'end' else 'walk', policy))
                    if flags or got != want:
                        res.append(('C14:readdir:resume:walk', 'listing %d: one fd_readdir call of %d bytes resuming %s delivers %r..., expected %r... %s (walk of single calls: partial, end, back to where the partial one stopped)' % (
                            k, S, 'at the end-of-directory cookie' if a == 'end' else 'after entry #%d' % a, got[:3], want[:3], flags), files2))
            else:
                classes.append(('cookies-not-stable', 'skipped', policy))
    shutil.rmtree(d, ignore_errors=True)
    return k, res, classes, n


def dotdot_symlink_probe(chk, plan, exe, root):
    """`..` opened through a descriptor that was itself opened through a symbolic link to a directory: the parent is the PHYSICAL
    parent of the link's target (what openat(fd, "..") gives), not the directory that contains the link."""
    d = os.path.join(root, 'dotdot')
    os.makedirs(os.path.join(d, 'a', 'deep'))
    os.makedirs(os.path.join(d, 'b'))
    open(os.path.join(d, 'a', 'inA'), 'w').write('in a\n')
    open(os.path.join(d, 'b', 'inB'), 'w').write('in b\n')
    os.symlink('../a/deep', os.path.join(d, 'b', 'lnk'))
    g = wasih.Guest(plan, ARENA)
    g.instantiate(preopens=[d])
    g.poke(0x100, b'b/lnk')
    g.poke(0x110, b'..')
    g.poke(0x120, b'inA')
    g.poke(0x130, b'made')
    g.poke(0x140, b'inB')
    dr = (1 << 1) | (1 << 14) | (1 << 9) | (1 << 18) | (1 << 13)
    i1 = g.call('path_open', [3, 1, 0x100, 5, 2, dr, dr, 0, 0x200])         # -> 4 (a/deep through the link)
    i2 = g.call('path_open', [4, 0, 0x110, 2, 2, dr, dr, 0, 0x204])         # -> 5 (its parent: a)
    i3 = g.call('path_filestat_get', [5, 0, 0x120, 3, 0x300])                 # a/inA exists
    i4 = g.call('path_filestat_get', [5, 0, 0x140, 3, 0x300])                 # a/inB does not
    i5 = g.call('path_create_directory', [5, 0x130, 4])                       # creates a/made
    fk = plan.fk('p1_fd_readdir')
    i6 = g.emit('R 0 %d 5 %d 2048 2048 %d 0 7 50' % (fk, 0x1000, 0x800), 'R')
    script = g.script()
    rr, out = wasih.run_script(exe, d, script)
    files = {'script.txt': script, 'stderr.txt': rr.err.decode('latin-1')[-3000:], 'log.txt': '\n'.join(out)}
    chk.ev(6)
    chk.distinct(('dotdot-through-symlinked-directory',))
    if rr.rc != 0 or len(out) <= i6:
        chk.violation('C14:dotdot-symlink:crash', 'driver exit %s' % rr.rc, files)
        return
    got = [wasih.call_result(out[i]) for i in (i1, i2, i3, i4, i5)]
    names = sorted(bytes.fromhex(t.split(':')[0]) for t in out[i6].split(' ')[2:] if t.count(':') == 4)
    want_names = sorted([x.encode() for x in os.listdir(os.path.join(d, 'a'))] + [b'.', b'..'])
    problems = []
    if got[:2] != [0, 0]:
        problems.append('opening the link / its parent failed with %s' % got[:2])
    else:
        if got[2] != 0:
            problems.append('stat of "inA" through the parent descriptor returned errno %s (the file exists in the physical parent)' % got[2])
        if got[3] != wasih.WASI_NUM['noent']:
            problems.append('stat of "inB" through the parent descriptor returned %s, expected ENOENT (it lives next to the link, not in the parent of the target)' % got[3])
        if got[4] != 0 or not os.path.isdir(os.path.join(d, 'a', 'made')) or os.path.exists(os.path.join(d, 'b', 'made')) or os.path.exists(os.path.join(d, 'made')):
            problems.append('path_create_directory("made") returned %s; a/made exists: %s, b/made exists: %s' % (got[4], os.path.isdir(os.path.join(d, 'a', 'made')), os.path.exists(os.path.join(d, 'b', 'made'))))
        if names != want_names:
            problems.append('fd_readdir lists %s, the physical parent holds %s' % (names[:6], want_names[:6]))
    if problems:
        chk.violation('C14:dotdot-through-symlinked-directory', '".." opened through a descriptor of a symlinked directory: ' + '; '.join(problems), files)


def main(chk):
    quick = chk.tier == 'quick'
    w2c2 = env.build_translator('plain')
    root = env.subdir('c14')
    part_a(chk, root, quick)
    mod = wasih.trampoline()
    exe, plan = wasih.build_driver(w2c2, os.path.join(root, 'build'), mod,
                                   ['-O1', '-g', '-fno-omit-frame-pointer', '-fsanitize=address,undefined', '-fno-sanitize-recover=all'])
    dotdot_symlink_probe(chk, plan, exe, root)
    nb = 200 if quick else 3000
    for k, res, classes, script in env.pmap(lambda k: part_b_history(k, plan, exe, root, 40 if quick else 120), range(nb)):
        chk.ev(len(classes))
        for c in classes:
            chk.distinct(c)
            chk.observe('op_' + c[0])
            chk.observe('outcome_%s_%s' % (c[0], c[2]))
        seen = set()
        for key, what, files in res:
            if key not in seen:
                seen.add(key)
                chk.violation(key, what, files)
        if k < 1:
            chk.sample({'part': 'b', 'ops': [l[:100] for l in script.splitlines() if l.startswith('c ')][:6]})
    nc = 150 if quick else 2200
    for k, res, classes, n in env.pmap(lambda k: part_c_listing(k, plan, exe, root), range(nc)):
        chk.ev(len(classes))
        for c in classes:
            chk.distinct(('readdir',) + tuple(c))
            chk.observe('listing_pass_' + str(c[1]))
        chk.observe('listing_entries_total', n)
        seen = set()
        for key, what, files in res:
            if key not in seen:
                seen.add(key)
                chk.violation(key, what, files)
    # guest buffers of 2 GiB and more: a driver whose guest memory has 40000 pages (lazily committed; plain build, run one at a time)
    try:
        import mmap
        mm = mmap.mmap(-1, 40000 * 65536)
        mm.close()
        hmod = wasih.trampoline(pages=40000)
        hexe, hplan = wasih.build_driver(w2c2, os.path.join(root, 'build-huge'), hmod, ['-O1', '-g'], name='htramp')
        for k in range(5 if quick else 15):
            k_, res, classes, script = part_c_huge(k, hplan, hexe, root)
            chk.ev(1)
            for c in classes:
                chk.distinct(('readdir',) + tuple(c))
                chk.observe('listing_huge_buffer')
            for key, what, files in res:
                chk.violation(key, what, files)
    except (OSError, ValueError) as ex:
        chk.observe('listing_huge_buffer', 'skipped: host cannot reserve the guest memory (%s)' % ex, 'set')
    chk.sample({'part': 'c', 'protocol': 'parse 24-byte records, discard truncated tail, continue from last complete d_next; buffers from 24+maxname'})
    chk.assume('POSIX twin on the same kernel/filesystem; telldir cookies are only used on the stream that produced them (resume passes replay the same pass first and require identical cookies, else the resume monitor is skipped and counted)')
    chk.assume('the errno reported for an empty path, and for a resolved path that does not fit, is not fixed by the property (any error / EINVAL|ENAMETOOLONG accepted)')


def replay(chk, path):
    print(open(os.path.join(path, 'script.txt')).read()[:3000])
    chk.ev(2)
    chk.distinct(1)
    chk.distinct(2)
