"""C13 WASI descriptors: unique while open, invalid after close, host memory stays safe.

Histories through the trampoline + wasi.c (ASan+UBSan build):
 * every number returned by path_open is new with respect to the live set (shadow descriptor table);
 * fds 0-2: bytes written via fd_write(1|2) arrive on the host's stdout/stderr, fd_read(0) returns the bytes fed to stdin;
 * every pre-open reports its exact path and length (also with a too-small buffer);
 * dead numbers (closed, and never issued: length, length+1, 2^31, 0xffffffff, random) are passed to each of the 22
   implemented descriptor-taking entry points (both ABIs, both positions of path_rename, path_open's directory): the
   result must be exactly EBADF, ASan must stay silent, and the host tree must be unchanged by the call.
"""
import os, shutil, stat, errno
from vlib import env, e2e, wasm, wasih, san
from vlib.wasih import WASI_NUM

LEVEL = 'exploration'
RULE = ('histories of open/close followed by dead-number sweeps; evaluation = one WASI call with a checked outcome; distinct = distinct '
        '(entry point, abi, dead-number kind) resp. (monitor kind, detail)')

EBADF = WASI_NUM['badf']
ARENA = 65536 * 2


def dead_calls(g, fd, r, name):
    """Emit one call of entry point `name` with dead descriptor fd. Returns output index.
    Usually all other arguments are valid; in `odd` mode the other (scalar) arguments are themselves unusual or invalid (bad
    whence, empty or over-long paths, zero-sized buffers, zero-length vectors, odd flags): a dead descriptor must still be EBADF.
    Pointers always stay inside guest memory."""
    odd = r.random() < 0.4
    P, PL = 0x2000, 2  # path "zz"
    P2, PL2 = 0x2100, 2
    BUF = 0x3000
    IOV = 0x2800
    LONG, LONGL = 0x8000, r.choice([4095, 4096, 4097, 5000, 9000])   # 0x8000.. holds 'q' * 9100 (poked by the caller)
    if odd:
        PL = r.choice([0, 1, 2, LONGL])
        PL2 = r.choice([0, 1, 2, LONGL])
        if PL > 2:
            P = LONG
        if PL2 > 2:
            P2 = LONG
        if getattr(g, 'abs_path_len', 0) and r.random() < 0.35:
            # an ABSOLUTE guest path (of an existing symbolic link / file): whatever a host does with absolute paths for live
            # descriptors, a dead descriptor number is EBADF
            P2, PL2 = 0x2200, g.abs_path_len
            if r.random() < 0.5:
                P, PL = 0x2200, g.abs_path_len
    niov = r.choice([0, 1, 2]) if odd else 1
    if name == 'fd_close':
        return g.call(name, [fd])
    if name in ('fd_datasync', 'fd_sync'):
        return g.call(name, [fd])
    if name in ('fd_fdstat_get', 'fd_filestat_get', 'fd_prestat_get', 'fd_tell'):
        return g.call(name, [fd, BUF])
    if name == 'fd_prestat_dir_name':
        return g.call(name, [fd, BUF, r.choice([0, 1, 64]) if odd else 64])
    if name in ('fd_read', 'fd_write'):
        return g.call(name, [fd, IOV, niov, BUF + 512])
    if name in ('fd_pread', 'fd_pwrite'):
        return g.call(name, [fd, IOV, niov, r.choice([0, 1 << 40, (1 << 63) - 1, 1 << 63, (1 << 64) - 1]) if odd else 0, BUF + 512])
    if name == 'fd_readdir':
        return g.call(name, [fd, BUF, r.choice([0, 1, 23, 24, 512]) if odd else 512, r.choice([0, 1, 1 << 40, (1 << 64) - 1]) if odd else 0, BUF + 600])
    if name == 'fd_seek':
        return g.call(name, [fd, r.choice([0, 5, (1 << 63), (1 << 64) - 1]) if odd else 0, r.choice([0, 1, 2, 3, 4, 255, 0xffffffff]) if odd else 0, BUF])
    if name in ('path_create_directory', 'path_remove_directory', 'path_unlink_file'):
        return g.call(name, [fd, P, PL])
    if name == 'path_filestat_get':
        return g.call(name, [fd, r.choice([0, 1, 2, 0xffffffff]) if odd else 0, P2, PL2, BUF])
    if name == 'path_open':
        if odd:
            return g.call(name, [fd, r.choice([0, 1, 0xffff]), P2, PL2, r.choice([0, 1, 2, 4, 8, 15, 0xffff]), r.choice([0, 1 << 1, (1 << 1) | (1 << 6), (1 << 64) - 1]), 0, r.choice([0, 1, 0x1f, 0xffff]), BUF])
        return g.call(name, [fd, 0, P2, PL2, 1, (1 << 1) | (1 << 6), 0, 0, BUF])
    if name == 'path_readlink':
        return g.call(name, [fd, P2, PL2, BUF, r.choice([0, 1, 100]) if odd else 100, BUF + 200])
    if name == 'path_rename:old':
        return g.call('path_rename', [fd, P2, PL2, 3, P, PL])
    if name == 'path_rename:new':
        return g.call('path_rename', [3, P2, PL2, fd, P, PL])
    if name == 'path_symlink':
        return g.call(name, [P2, PL2, fd, P, PL])
    raise AssertionError(name)


ENTRY = ['fd_close', 'fd_datasync', 'fd_fdstat_get', 'fd_filestat_get', 'fd_pread', 'fd_prestat_get', 'fd_prestat_dir_name', 'fd_pwrite',
         'fd_read', 'fd_readdir', 'fd_seek', 'fd_sync', 'fd_tell', 'fd_write', 'path_create_directory', 'path_filestat_get', 'path_open',
         'path_readlink', 'path_remove_directory', 'path_rename:old', 'path_rename:new', 'path_symlink', 'path_unlink_file']


def snapshot(root):
    out = {}
    for dp, dns, fns in os.walk(root):
        for n in dns + fns:
            p = os.path.join(dp, n)
            st = os.lstat(p)
            out[os.path.relpath(p, root)] = (stat.S_IFMT(st.st_mode), st.st_size if stat.S_ISREG(st.st_mode) else 0,
                                             os.readlink(p) if stat.S_ISLNK(st.st_mode) else None)
    return out


def main(chk):
    quick = chk.tier == 'quick'
    w2c2 = env.build_translator('plain')
    root = env.subdir('c13')
    mod = wasih.trampoline()
    exe, plan = wasih.build_driver(w2c2, os.path.join(root, 'build'), mod,
                                   ['-O1', '-g', '-fno-omit-frame-pointer', '-fsanitize=address,undefined', '-fno-sanitize-recover=all'])
    nh = 400 if quick else 6000

    def one(k):
        r = env.rng('c13', k)
        d = os.path.join(root, 'h%d' % k)
        T = os.path.join(d, 'tree')
        os.makedirs(os.path.join(T, 'sub', 'deep'))
        os.makedirs(os.path.join(T, 'other'))
        for n in ('a', 'b', 'sub/c', 'zy', 'other/o'):
            open(os.path.join(T, n), 'w').write('content of %s\n' % n)
        os.symlink('a', os.path.join(T, 'zl'))
        preopens = [T] + r.sample([os.path.join(T, 'sub'), os.path.join(T, 'other'), os.path.join(T, 'sub', 'deep') + '/'], r.randint(0, 2))
        with_dev = r.random() < 0.4 and os.path.exists('/dev/full')
        if with_dev:
            preopens.append('/dev')
        abi = r.choice(['p1', 'un'])
        g = wasih.Guest(plan, ARENA, abi=abi)
        # some pre-opens are registered with a native directory descriptor opened by the embedder (wasiFileDescriptorAdd(fd >= 0, path))
        g.instantiate(preopens=preopens, native=set(i for i in range(len(preopens)) if r.random() < 0.3))
        checks = []  # (kind, output index, expectation, detail)
        g.poke(0x2000, b'zz')
        g.poke(0x2100, b'zy')
        ap = (T + '/zl').encode()
        g.poke(0x2200, ap)
        g.abs_path_len = len(ap)
        g.poke(0x8000, b'q' * 9100)
        g.poke(0x2800, (0x3400).to_bytes(4, 'little') + (16).to_bytes(4, 'little'))
        g.poke(0x3400, b'0123456789abcdef')
        first_fd = 3
        npre = len(preopens)
        # ---- pre-opens report their paths
        for i, p in enumerate(preopens):
            fd = first_fd + i
            g.poke(0x3000, b'\xaa' * 16)
            idx = g.call('fd_prestat_get', [fd, 0x3000])
            di = g.dump(0x3000, 8)
            checks.append(('prestat', idx, 0, None))
            checks.append(('prestat-len', di, len(p), p))
            for blen in (len(p), len(p) + 5, max(1, len(p) - 3)):
                g.poke(0x4000, b'\xbb' * 600)
                idx = g.call('fd_prestat_dir_name', [fd, 0x4000, blen])
                di = g.dump(0x4000, len(p) + 16)
                checks.append(('prestat-name', di, (p, blen), idx))
        # ---- pre-opened directories are descriptors like any other: list / stat them through their own numbers, so that they carry
        # internal state (an open directory stream) when some of them are closed later
        for i, p in enumerate(preopens):
            for _ in range(r.randint(0, 2)):
                use = r.choice(['fd_readdir', 'fd_readdir', 'fd_fdstat_get', 'fd_filestat_get'])
                g.poke(0x3000, b'\0' * 8)
                if use == 'fd_readdir':
                    idx = g.call(use, [first_fd + i, 0x7000, r.choice([64, 512, 4096]), 0, 0x7800])
                else:
                    idx = g.call(use, [first_fd + i, 0x3000])
                checks.append(('errno', idx, 0, use + '(preopen)'))
        # ---- stdio
        msg1 = b'to-stdout-%d\n' % k
        msg2 = b'to-stderr-%d\n' % k
        g.poke(0x5000, msg1 + msg2)
        g.poke(0x5100, (0x5000).to_bytes(4, 'little') + len(msg1).to_bytes(4, 'little') + (0x5000 + len(msg1)).to_bytes(4, 'little') + len(msg2).to_bytes(4, 'little'))
        idx = g.call('fd_write', [1, 0x5100, 1, 0x5200])
        checks.append(('errno', idx, 0, 'fd_write(1)'))
        idx = g.call('fd_write', [2, 0x5108, 1, 0x5200])
        checks.append(('errno', idx, 0, 'fd_write(2)'))
        stdin_bytes = b'stdin-payload-%d-xyz' % k
        g.poke(0x5300, (0x5400).to_bytes(4, 'little') + (64).to_bytes(4, 'little'))
        g.poke(0x5400, b'\0' * 64)
        idx = g.call('fd_read', [0, 0x5300, 1, 0x5200])
        checks.append(('errno', idx, 0, 'fd_read(0)'))
        di = g.dump(0x5400, 64)
        checks.append(('stdin', di, stdin_bytes, None))
        # ---- open / close history with shadow table
        live = set(range(0, first_fd + npre))
        nextfd = first_fd + npre
        opened = []
        closed = []
        names = ['a', 'b', 'sub/c', 'sub', 'other', '.', 'sub/deep', 'other/o']
        # descriptors that were never returned by path_open can be closed too: the standard streams (their native numbers are then
        # free for reuse by later opens, so a stale use would land in an unrelated file) and the additional pre-opens
        victims = []
        if r.random() < 0.6:
            victims = r.sample([0, 1] + ([2] if r.random() < 0.2 else []) + list(range(first_fd + 1, first_fd + npre - (1 if with_dev else 0))), 1)
            if r.random() < 0.3:
                victims.append(r.choice([v for v in (0, 1) if v not in victims] or [0]))
            victims = list(dict.fromkeys(victims))
        special = []
        # a file whose resolved host path is as long as the host allows (PATH_MAX - 1 characters), and neighbours of that length
        longs = []
        if r.random() < 0.5:
            comps = []
            room = 4095 - len(T) - 1 - 2      # "<T>/" + components + "/f"
            while room > 0:
                n = min(250, room - 1) if room > 251 else room
                if n <= 0:
                    break
                comps.append('D' * n)
                room -= n + 1
            deep = '/'.join(comps)
            try:
                os.makedirs(os.path.join(T, deep), exist_ok=True)
                for fname, tot in (('f', 4095), ('ff', 4096)):
                    full = os.path.join(T, deep, fname)
                    if len(full) <= 4095:
                        open(full, 'w').write('deep\n')
                longs = [deep + '/f', deep + '/ff', deep[1:] + '/f', deep]
            except OSError:
                longs = []
        for step in range(r.randint(3, 14)):
            x = r.random()
            if longs and x > 0.8 and x <= 0.88:
                gp = longs.pop(0)
                full = T + '/' + gp
                g.poke(0xC000, gp.encode())
                g.poke(0x6100, b'\xff\xff\xff\xff')
                isdir_l = os.path.isdir(full) if len(full) <= 4095 else False
                exists = len(full) <= 4095 and os.path.exists(full)
                idx = g.call('path_open', [first_fd, 0, 0xC000, len(gp), 0, (1 << 1), (1 << 1), 0, 0x6100])
                di = g.dump(0x6100, 4)
                if exists:
                    checks.append(('open', di, (nextfd, frozenset(live)), idx))
                    live.add(nextfd)
                    opened.append((nextfd, isdir_l))
                    nextfd += 1
                else:
                    checks.append(('open-fail', di, len(full), idx))
                    # the number it would have been given was not issued: it must behave as never issued right away
                    for name in r.sample(ENTRY, 6):
                        idx2 = dead_calls(g, nextfd, r, name)
                        checks.append(('dead', idx2, EBADF, (name, g.abi, 'never-issued-after-failed-open', nextfd)))
            elif victims and x > 0.88:
                fd = victims.pop()
                idx = g.call('fd_close', [fd])
                checks.append(('errno', idx, 0, 'fd_close(stdio)' if fd < 3 else 'fd_close(preopen)'))
                live.discard(fd)
                special.append((fd, 'closed-stdio' if fd < 3 else 'closed-preopen'))
            elif x < 0.65 or not opened:
                nm = r.choice(names)
                isdir = os.path.isdir(os.path.join(T, nm))
                g.poke(0x6000, nm.encode())
                g.poke(0x6100, b'\xff\xff\xff\xff')
                rights = (1 << 1) if isdir else r.choice([(1 << 1), (1 << 1) | (1 << 6)])
                idx = g.call('path_open', [first_fd, 0, 0x6000, len(nm), 2 if isdir and r.random() < 0.5 else 0, rights, rights, 0, 0x6100])
                di = g.dump(0x6100, 4)
                checks.append(('open', di, (nextfd, frozenset(live)), idx))
                live.add(nextfd)
                opened.append((nextfd, isdir))
                # use the live descriptor so that it reaches its various internal states (directory stream opened, file
                # position moved, ...) before it is closed later
                for _ in range(r.randint(0, 2)):
                    if isdir:
                        use = r.choice(['fd_readdir', 'fd_readdir', 'fd_fdstat_get', 'fd_filestat_get'])
                    else:
                        use = r.choice(['fd_read', 'fd_seek', 'fd_tell', 'fd_fdstat_get', 'fd_filestat_get'])
                    g.poke(0x3000, b'\0' * 8)
                    if use == 'fd_readdir':
                        idx = g.call(use, [nextfd, 0x7000, r.choice([64, 512, 4096]), 0, 0x7800])
                    elif use == 'fd_read':
                        idx = g.call(use, [nextfd, 0x2800, 1, 0x3200])
                    elif use == 'fd_seek':
                        idx = g.call(use, [nextfd, 1, 0, 0x3000])
                    else:
                        idx = g.call(use, [nextfd, 0x3000])
                    checks.append(('errno', idx, 0, use + '(live)'))
                nextfd += 1
            else:
                fd, isdir = opened.pop(r.randrange(len(opened)))
                idx = g.call('fd_close', [fd])
                checks.append(('errno', idx, 0, 'fd_close(live)'))
                live.discard(fd)
                closed.append((fd, isdir))
        # ---- a listed directory that disappears while its descriptor is open: the listing is restarted, then the descriptor is closed
        removed_dir = False
        if r.random() < 0.3 and (T + '/sub/deep/') not in preopens and (T + '/sub/deep') not in preopens:
            g.poke(0x6000, b'sub/deep')
            g.poke(0x6100, b'\xff\xff\xff\xff')
            idx = g.call('path_open', [first_fd, 0, 0x6000, 8, 2, (1 << 1), (1 << 1), 0, 0x6100])
            di = g.dump(0x6100, 4)
            checks.append(('open', di, (nextfd, frozenset(live)), idx))
            dfd = nextfd
            live.add(dfd)
            nextfd += 1
            if r.random() < 0.5:
                idx = g.call('fd_readdir', [dfd, 0x7000, 512, 0, 0x7800])
                checks.append(('errno', idx, 0, 'fd_readdir(live)'))
            # (otherwise the FIRST listing of the descriptor happens after the directory is gone)
            idx = g.call('path_remove_directory', [first_fd, 0x6000, 8])
            checks.append(('errno', idx, 0, 'path_remove_directory(listed directory)'))
            removed_dir = True
            for _ in range(r.randint(1, 2)):
                g.call('fd_readdir', [dfd, 0x7000, 512, 0, 0x7800])   # any errno: the directory is gone; what matters is what follows
            if r.random() < 0.5:
                g.call('fd_readdir', [dfd, 0x7000, 512, r.choice([1, 2, 5]), 0x7800])
            idx = g.call('fd_close', [dfd])
            checks.append(('errno', idx, 0, 'fd_close(live)'))
            live.discard(dfd)
            closed.append((dfd, True))
        # ---- a host call that fails with a distinctive error (no space left: a write to /dev/full) right before the sweeps: what a dead
        # number answers must not depend on what an earlier, unrelated call left behind (errno)
        if with_dev:
            devfd = first_fd + npre - 1
            g.poke(0x6200, b'full')
            g.poke(0x6100, b'\xff\xff\xff\xff')
            idx = g.call('path_open', [devfd, 0, 0x6200, 4, 0, (1 << 6), 0, 0, 0x6100])
            di = g.dump(0x6100, 4)
            checks.append(('open', di, (nextfd, frozenset(live)), idx))
            ffd = nextfd
            nextfd += 1
            idx = g.call('fd_write', [ffd, 0x5100, 1, 0x5200])
            checks.append(('errno', idx, 51, 'fd_write(/dev/full)'))
            idx = g.call('fd_close', [ffd])
            checks.append(('errno', idx, 0, 'fd_close(live)'))
            closed.append((ffd, False))
            idx = g.call('fd_write', [ffd, 0x5100, 1, 0x5200]) if r.random() < 0.5 else g.call('fd_close', [ffd])
            checks.append(('dead', idx, EBADF, ('fd_close-or-write', abi, 'closed-file-after-enospc', ffd)))
            if r.random() < 0.5:
                # and once more with the error fresh
                g.call('path_open', [devfd, 0, 0x6200, 4, 0, (1 << 6), 0, 0, 0x6100])
                ffd2 = nextfd
                nextfd += 1
                g.call('fd_write', [ffd2, 0x5100, 1, 0x5200])
                live.add(ffd2)
                opened.append((ffd2, False))
        # ---- dead-number sweeps
        never = [nextfd, nextfd + 1, 1 << 31, 0xffffffff, r.randint(nextfd + 2, 1 << 30), 0x7fffffff]
        deads = [(fd, 'closed-dir' if isdir else 'closed-file') for fd, isdir in closed] + [(fd, 'never-issued') for fd in r.sample(never, 3)]
        r.shuffle(deads)
        for fd, kind in special + deads[:6 - len(special)]:
            for name in (ENTRY if r.random() < 0.5 else r.sample(ENTRY, 8)):
                a = r.choice(['p1', 'un'])
                g.abi = a
                idx = dead_calls(g, fd, r, name)
                checks.append(('dead', idx, EBADF, (name, a, kind, fd)))
        g.abi = abi
        # a live descriptor keeps working after all that
        if opened:
            fd, isdir = opened[0]
            idx = g.call('fd_fdstat_get', [fd, 0x3000])
            checks.append(('errno', idx, 0, 'fd_fdstat_get(live) after sweeps'))
        script = g.script()
        before = snapshot(T)
        if removed_dir:
            before.pop('sub/deep', None)
        rr, out = wasih.run_script(exe, d, script, stdin=stdin_bytes)
        after = snapshot(T)
        res = []
        err = rr.err.decode('latin-1')
        files = {'script.txt': script, 'stderr.txt': err[-6000:], 'log.txt': '\n'.join(out)}
        reps = san.parse(err)
        stop_at = len(out)
        if reps:
            # attribute to the call in flight: the last logged line is the unfinished call
            last = g.lines[len(out) - 1] if 0 < len(out) <= len(g.lines) else ''
            res.append(('C13:' + reps[0][0], 'history %d during "%s": %s' % (k, last[:100], reps[0][1]), files))
        elif rr.rc != 0 or rr.timeout:
            res.append(('C13:crash:%s' % rr.rc, 'history %d: driver exit %s; last call "%s"; %s' % (k, rr.rc, g.lines[len(out) - 1][:100] if out else '', err[-200:]), files))
        seen_classes = []
        for kind, idx, exp, detail in checks:
            if idx >= len(out) or ' -> ' in out[idx] and out[idx].endswith('-> '):
                continue
            line = out[idx]
            if kind in ('errno', 'prestat'):
                got = wasih.call_result(line)
                if got != exp:
                    res.append(('C13:%s:errno' % (detail or 'fd_prestat_get').split('(')[0], 'history %d: %s returned %s, expected %s' % (k, detail or 'fd_prestat_get', got, exp), files))
                seen_classes.append((kind, detail))
            elif kind == 'dead':
                name, a, dk, fd = detail
                got = wasih.call_result(line)
                seen_classes.append(('dead', name, a, dk))
                if got != exp:
                    res.append(('C13:ebadf:%s:%s' % (name, dk), 'history %d: %s(%s ABI) on %s descriptor %#x returned %s, expected EBADF (8)' % (k, name, a, dk, fd, got), files))
            elif kind == 'prestat-len':
                raw = bytes.fromhex(line.split(' ')[3])
                tag, ln = raw[0], int.from_bytes(raw[4:8], 'little')
                seen_classes.append(('prestat-len',))
                if tag != 0 or ln != exp:
                    res.append(('C13:prestat:length', 'history %d: prestat of %s reports tag %d length %d (expected 0, %d)' % (k, detail, tag, ln, exp), files))
            elif kind == 'prestat-name':
                p, blen = exp
                raw = bytes.fromhex(line.split(' ')[3])
                call_rc = wasih.call_result(out[detail])
                want = p.encode()
                seen_classes.append(('prestat-name', 'fits' if blen >= len(want) else 'too-small'))
                if blen >= len(want):
                    if call_rc != 0 or raw[:len(want)] != want or raw[len(want):] != b'\xbb' * (len(raw) - len(want)):
                        res.append(('C13:prestat:name', 'history %d: prestat_dir_name(%s, len %d) rc %s wrote %r' % (k, p, blen, call_rc, raw[:len(want) + 4]), files))
                else:
                    # too small a buffer: an error, or a prefix; never a write beyond the given length
                    if raw[blen:] != b'\xbb' * (len(raw) - blen):
                        res.append(('C13:prestat:name-overrun', 'history %d: prestat_dir_name with %d-byte buffer wrote past it' % (k, blen), files))
            elif kind == 'stdin':
                raw = bytes.fromhex(line.split(' ')[3])
                seen_classes.append(('stdin',))
                if raw[:len(exp)] != exp:
                    res.append(('C13:stdio:stdin', 'history %d: fd_read(0) delivered %r, expected %r' % (k, raw[:len(exp)], exp), files))
            elif kind == 'open-fail':
                rc = wasih.call_result(out[detail])
                seen_classes.append(('open-fail',))
                if rc == 0:
                    res.append(('C13:path_open:long-path-accepted', 'history %d: path_open of a %d-character host path succeeded' % (k, exp), files))
            elif kind == 'open':
                want_fd, liveset = exp
                rc = wasih.call_result(out[detail])
                raw = bytes.fromhex(line.split(' ')[3])
                got = int.from_bytes(raw, 'little')
                seen_classes.append(('open',))
                if rc != 0:
                    res.append(('C13:path_open:errno', 'history %d: path_open failed with %s' % (k, rc), files))
                elif got in liveset:
                    res.append(('C13:alias', 'history %d: path_open returned %d which is a live descriptor %s' % (k, got, sorted(liveset)), files))
                elif got != want_fd:
                    # a different but fresh number would be fine for the property; the script however assumed want_fd
                    res.append(('C13:harness:fd-numbering', 'history %d: path_open returned %d, script assumed %d' % (k, got, want_fd), files))
        if not reps and rr.rc == 0:
            if rr.out != msg1:
                res.append(('C13:stdio:stdout', 'history %d: host stdout received %r, expected %r' % (k, rr.out[:80], msg1), files))
            if msg2 not in rr.err:
                res.append(('C13:stdio:stderr', 'history %d: host stderr received %r, expected %r' % (k, rr.err[:80], msg2), files))
            if before != after:
                ch = [p for p in set(before) | set(after) if before.get(p) != after.get(p)]
                res.append(('C13:tree-changed', 'history %d: host tree changed by calls on dead descriptors: %s' % (k, ch[:4]), files))
        shutil.rmtree(d, ignore_errors=True)
        return k, res, seen_classes, len(checks), script

    for k, res, classes, n, script in env.pmap(one, range(nh)):
        chk.ev(n)
        for c in classes:
            chk.distinct(c)
            chk.observe('monitor_' + c[0])
            if c[0] == 'dead':
                chk.observe('dead_' + c[3])
        seen = set()
        for key, what, files in res:
            if key in seen:
                continue
            seen.add(key)
            chk.violation(key, what, files)
        if k < 2:
            chk.sample({'history': k, 'calls': [l[:90] for l in script.splitlines() if l.startswith('c ')][:8]})
    chk.observe('histories', nh, 'set')
    chk.observe('entry_points_swept', ENTRY, 'set')
    chk.assume('only the 22 entry points the README lists as implemented are swept (unimplemented ones return ENOSYS without looking at the descriptor)')
    chk.assume('what live non-directory descriptors do when used as a directory is not stated by C13 and not judged')


def replay(chk, path):
    print(open(os.path.join(path, 'script.txt')).read()[:3000])
    chk.ev(2)
    chk.distinct(1)
    chk.distinct(2)
