"""C02 Floating-point arithmetic and numeric conversions survive translation.

Monitors: V8 differential of (1) directed tables: every float / conversion opcode over boundary sets F32/F64
(all NaN classes, +-0, +-inf, subnormals, ties, exact truncation boundaries +-1ulp) and integer sources that
round; (2) nested float programs with NaN canonicalisation, compared bit-exactly.
NaN discipline: NaN results of arithmetic are compared by class, everything else bit-exactly.
Trap kind: V8 does not tell NaN from out-of-range; the expected code is derived from the operand.
"""
import os, shutil
from vlib import env, e2e, gen, wasm, directed, diff, progs, exhaust
from vlib.wasm import *

LEVEL = 'exploration'
RULE = ('directed: (opcode, operand bit patterns) over F32/F64 special sets + seeded randoms, distinct = distinct (opcode, operands); '
        'nested: float-profile generated programs with NaN canonicalisation x argument vectors, distinct = (module, function, vector)')

FLOAT_OPS = gen.FLOAT_OPS

INT_ROUND32 = [0x1000001, 0x1000002, 0x1000003, 0xffffff, 0x2000001, 0x7fffffc0, 0x7fffffbf, 0x7fffffc1, 0xffffff80,
               0xffffff7f, 0xffffff81, 0x80000040, 0x80000041, 0xfeffffff]
INT_ROUND64 = [0x1000001, 0x20000000000001, 0x20000000000002, 0x20000000000003, 0x3fffffffffffff, 0x40000000000001,
               0x7ffffffffffffc00, 0x7ffffffffffffbff, 0x7ffffffffffffdff, 0x7ffffffffffffe00, 0x8000000000000400,
               0x8000000000000401, 0x80000000000003ff, 0xfffffffffffff800, 0xfffffffffffff7ff, 0xfffffffffffffbff,
               0xfffffffffffffc00, 0x7fffff8000000000, 0x7fffff4000000000, 0x7fffffc000000000, 0xffffff8000000000,
               0xffffff7fffffffff, 0xffffff0000000001, 0x8000008000000000, 0x8000008000000001, 0x0000010000000000 | 1]


def classify(op, args, kind, ra, rb, ps):
    key = 'C02:%s:%s' % (kind, op)
    if args:
        cl = []
        for a, t in zip(args, ps):
            if t == F32:
                cl.append('nan' if wasm.is_nan32(a) else 'inf' if (a & 0x7fffffff) == 0x7f800000 else 'zero' if (a & 0x7fffffff) == 0 else 'sub' if (a & 0x7f800000) == 0 else 'num')
            elif t == F64:
                cl.append('nan' if wasm.is_nan64(a) else 'inf' if (a & (2**63 - 1)) == 0x7ff0000000000000 else 'zero' if (a & (2**63 - 1)) == 0 else 'sub' if (a & 0x7ff0000000000000) == 0 else 'num')
            else:
                cl.append('int')
        key += ':' + ','.join(cl)
    return key


def run_directed(chk, w2c2, tag, cc, cflags, rnd):
    m = directed.op_module(FLOAT_OPS)
    b = m.encode()
    plan = e2e.Plan(m)
    sets = {t: directed.operand_set(t, rnd, extra=10) for t in (I32, I64, F32, F64)}
    sets[I32] += INT_ROUND32
    sets[I64] += INT_ROUND64
    script, steps, evals, sets = directed.sweep_script(plan, FLOAT_OPS, rnd, sets=sets)
    d = env.subdir('c02-directed-' + tag)
    st, ref, _ = e2e.run_ref(b, plan, script, d)
    if st != 'ok':
        chk.inconclusive('reference failed on directed module: %s %s' % (st, ref))
        return
    st, out, r = e2e.build_and_run(w2c2, b, plan, script, d, cc=cc, cflags=cflags)
    files = {'module.wasm': b, 'script.txt': script, 'build.txt': '%s %s' % (cc, cflags)}
    if st != 'ok':
        chk.violation('C02:directed:%s:%s' % (st, tag), 'directed float module failed at stage %s: %s' % (st, str(out)[:1500]), files)
        return
    diffs = diff.compare(ref, out, steps)
    chk.ev(len(out) - 1)
    for line in ref:
        p = diff.parse_call(line)
        if p:
            chk.distinct((p[1],) + tuple(p[2]))
            if p[3].startswith('trap'):
                chk.observe('traps_seen_' + p[3].split(':')[1])
    chk.observe('directed_ops_' + tag, len(FLOAT_OPS), 'set')
    chk.observe('operand_set_sizes', {t: len(s) for t, s in sets.items()}, 'set')
    for step, kind, ra, rb, i in diffs:
        meta = steps.get(step, {})
        p = diff.parse_call(out[i]) if i < len(out) else None
        args = p[2] if p else []
        op = meta.get('name', '?')
        key = classify(op, args, kind, ra, rb, OPS[op][3] if op in OPS else ())
        chk.violation(key, '%s(%s): reference %s, compiled (%s) %s' % (op, ','.join(hex(a) for a in args), ra, tag, rb),
                      dict(files, reference_line=ref[i] if i < len(ref) else '', compiled_line=out[i] if i < len(out) else ''))
    chk.sample({'kind': 'directed', 'build': tag, 'lines': out[5000:5003]})


def main(chk):
    quick = chk.tier == 'quick'
    w2c2 = env.build_translator('plain')
    # an unoptimised build is part of every tier: at -O0 library calls and conversions in the generated C are executed as written
    # (no folding back into sign-bit operations etc.)
    builds = [('gcc-O1', 'gcc', ['-O1']), ('clang-O2', 'clang', ['-O2']), ('gcc-O0', 'gcc', ['-O0'])]
    if not quick:
        builds += [('gcc-O3', 'gcc', ['-O3']), ('clang-O0', 'clang', ['-O0']), ('gcc-O2-gnu89', 'gcc', ['-O2', '-std=gnu89']), ('gcc-O2-freestanding', 'gcc', ['-O2', '-ffreestanding'])]
    env.pmap(lambda bl: run_directed(chk, w2c2, bl[0], bl[1], bl[2], env.rng('c02-dir')), builds)

    # in-module sweeps: every float / conversion opcode over all 2^32 patterns of a 32-bit operand (thorough) / seeded lattices (quick)
    exhaust.run_sweeps(chk, w2c2, 'C02', [e for e in exhaust.sweep_ops() if e[1] in FLOAT_OPS], [(t, c, f, []) for t, c, f in builds],
                       slow_builds=(() if quick else ('gcc-O0', 'clang-O0')))

    # the same opcodes on compile-time CONSTANT operands (what the C compiler folds), every non-trapping tuple of the tables
    exhaust.run_constfold(chk, w2c2, 'C02', FLOAT_OPS, [(t, c, f, []) for t, c, f in builds], env.rng('c02-constfold'))

    prof = gen.Profile(nan_canon=True, w_trace=0.3, w_control=0.6)
    prof.ops = set(wasm.NUMERIC)
    nmods = 120 if quick else 1200
    vectors = 8 if quick else 12
    pbuilds = [('gcc-O1', 'gcc', ['-O1'], [], None)]
    if not quick:
        pbuilds.append(('clang-O2', 'clang', ['-O2'], [], None))

    def one(k):
        d = env.subdir('c02-n%d' % k)
        return k, progs.run_program(w2c2, ('c02-nested', k), prof, d, pbuilds, n_funcs=10, vectors=vectors, opts=progs.opts_for(k))

    rejected = 0
    for k, res in env.pmap(one, range(nmods)):
        if res.ref_stage == 'invalid':
            rejected += 1
            continue
        if res.ref_stage != 'ok':
            chk.inconclusive('reference run failed for nested module %d: %s' % (k, res.ref))
            continue
        files = {'module.wasm': res.wasm, 'script.txt': res.script}
        for tag, (st, out, diffs) in res.builds.items():
            if st != 'ok':
                chk.violation('C02:nested:%s' % st, 'nested module %d failed at %s (%s): %s' % (k, st, tag, str(out)[:1200]), files)
                continue
            h = env.sha(res.wasm)[:12]
            for l in res.ref:
                p = diff.parse_call(l)
                if p and p[1] < len(res.ctx.export_wrappers):
                    chk.ev()
                    chk.distinct((h, p[1]) + tuple(p[2]))
                    if p[3].startswith('trap'):
                        chk.observe('nested_traps_' + p[3].split(':')[1])
            seen = set()
            for step, kind, ra, rb, i in diffs:
                key = 'C02:nested:%s' % kind
                if kind == 'trapcode':
                    key += ':%s->%s' % (ra.split(':')[-1], rb.split(':')[-1])
                if key in seen:
                    continue
                seen.add(key)
                chk.violation(key, 'module %d build %s: %s' % (k, tag, progs.first_divergent_call(res, tag)),
                              dict(files, reference_out='\n'.join(res.ref), compiled_out='\n'.join(out)))
        if k < 2:
            chk.sample({'kind': 'nested', 'module': k, 'bytes': len(res.wasm), 'lines': res.ref[1:4]})
        shutil.rmtree(env.subdir('c02-n%d' % k), ignore_errors=True)
    chk.observe('nested_modules', nmods, 'set')
    chk.observe('generator_rejected', rejected, 'set')
    if rejected * 100 > nmods:
        chk.inconclusive('generator produced %d/%d modules rejected by V8' % (rejected, nmods))
    chk.assume('V8 is the IEEE-754/spec reference; host C library nearbyint/sqrt/ceil/floor/trunc are correctly rounded; default rounding mode')


from checks.c01 import replay  # same bundle format
