"""C19 Linear memory is little-endian regardless of host byte order.

The big-endian branches are compiled on this little-endian host with -DWASM_ENDIAN=1. harness/endian_probe.c runs every
load (14), store (9), atomic load/store (14), RMW/xchg (42) and cmpxchg (7, match and mismatch) flavour of w2c2_base.h,
the bulk operations, the DEFINE_SWAP helpers and the translator's float-immediate reader, each on a window X and on R(X)
(bytes of the accessed cell reversed). Oracle = exact relation between the two builds:
   BE-build(F, X) returns ret and leaves `after`   <=>   LE-build(F, R(X)) returns ret and leaves R(after)
i.e. exactly one reversal of exactly the access width; for 8-bit accesses and bulk copies R is the identity.
Swap helpers reverse exactly their declared width in the BE build and are the identity in the LE build; the immediates
reader returns the single reversal of what the LE build returns. Module level (thorough): translated load/store histories
give identical call results on both builds.
"""
import os, shutil
from vlib import env, e2e, wasm, diff
from vlib.wasm import *

LEVEL = 'exploration'
RULE = ('relation checks between the host-order build and the forced big-endian build; evaluation = one (flavour, window, value) case in both '
        'variants; distinct = distinct (flavour, address alignment, variant); non-trivial = accessed bytes are not a palindrome')


def rev(b, a, w):
    b = bytearray(b)
    b[a:a + w] = b[a:a + w][::-1]
    return bytes(b)


def parse(text):
    cases = []
    swaps = []
    bufs = []
    endian = None
    for l in text.splitlines():
        t = l.split(' ')
        if t[0] == 'ENDIAN':
            endian = int(t[1])
        elif t[0] == 'SWAP':
            swaps.append((int(t[1], 16), dict((x.split('=')[0], int(x.split('=')[1], 16)) for x in t[2:])))
        elif t[0] == 'BUF':
            bufs.append((int(t[1], 16), dict((x.split('=')[0], int(x.split('=')[1], 16)) for x in t[2:])))
        elif len(t) == 7 and t[0] not in ('DONE',):
            cases.append((t[0], int(t[1]), t[2], int(t[3]), int(t[4]), int(t[5], 16), bytes.fromhex(t[6])))
    return endian, cases, swaps, bufs


def bswap(v, bits):
    return int.from_bytes(v.to_bytes(bits // 8, 'little'), 'big')


def wait_probe(chk, d, quick):
    """The implicit atomic load of memory.atomic.wait32/64 (futex library) under both byte-order configurations."""
    futex = [os.path.join(env.REPO, 'futex', f) for f in ('futex.c', 'list.c', 'map.c')]
    outs = {}
    for tag, defs in (('le', []), ('be', ['-DWASM_ENDIAN=1'])):
        exe = os.path.join(d, 'waitprobe-' + tag)
        r = env.run(['gcc', '-O1', '-g', '-w', '-fsanitize=address', '-DWASM_THREADS_PTHREADS'] + defs + ['-I', e2e.base_include(), '-I', os.path.join(env.REPO, 'futex'),
                     os.path.join(env.VERIF, 'harness', 'endian_wait_probe.c')] + futex + ['-o', exe, '-lpthread', '-lm'], timeout=300)
        if r.rc != 0:
            chk.violation('C19:compile:wait-probe:%s' % tag, 'wait probe does not build (%s): %s' % (tag, r.err[-1500:]))
            return
        n = 60 if quick else 600
        runs = env.pmap(lambda i: env.run([exe, str(env.SEED * 100 + i), str(n)], env=env.SAN_ENV, timeout=300), range(4 if quick else 16))
        outs[tag] = runs
    for i, (rl, rb) in enumerate(zip(outs['le'], outs['be'])):
        files = {'cmd.txt': 'endian_wait_probe %d (le and be builds)' % (env.SEED * 100 + i), 'le.txt': rl.out[-100000:], 'be.txt': rb.out[-100000:], 'stderr.txt': (rl.err + rb.err)[-3000:]}
        if rl.rc != 0 or rb.rc != 0 or 'DONE' not in rl.out or 'DONE' not in rb.out:
            chk.violation('C19:wait-probe-crash', 'wait probe failed: le rc %s be rc %s: %s' % (rl.rc, rb.rc, (rl.err + rb.err)[-400:]), files)
            continue
        if 'ENDIAN 0' not in rl.out or 'ENDIAN 1' not in rb.out:
            chk.inconclusive('wait probe builds did not select the expected byte orders')
            continue
        for tag, r in (('le', rl), ('be', rb)):
            for l in r.out.splitlines():
                if not l.startswith('W '):
                    continue
                _, w, v, r0, r1, r2, pal = l.split()
                chk.ev()
                chk.distinct(('wait', w, v, tag))
                chk.observe('wait_cases_' + tag)
                want = ('2', '2' if pal == '1' else '1', '1')
                if (r0, r1, r2) != want:
                    which = 'equal-cell-not-blocking' if r0 != '2' else ('reversed-expected-treated-as-equal' if r1 != want[1] else 'different-expected-blocking')
                    chk.violation('C19:wait%s:%s' % (w, which), 'byte-order configuration %s: wait%s on a cell holding %#x returned %s/%s/%s for expected = value / byte-reversed value / value with one bit flipped; must be %s/%s/%s' % (
                        tag, w, int(v, 16), r0, r1, r2, want[0], want[1], want[2]), files)
                    break


def detection_probe(chk, d):
    """The host byte order is DETECTED by a preprocessor cascade in w2c2_base.h. The cascade (the real header text between the
    WASM_LITTLE_ENDIAN definition and '#endif /* WASM_ENDIAN */') is preprocessed by gcc and clang with all predefined macros
    removed (-undef) and the macro environment of a number of toolchains defined instead; the selected order must be the one that
    environment stands for."""
    src = open(os.path.join(env.REPO, 'w2c2', 'w2c2_base.h')).read()
    try:
        a = src.index('#define WASM_LITTLE_ENDIAN')
        b = src.index('#endif /* WASM_ENDIAN */') + len('#endif /* WASM_ENDIAN */')
    except ValueError:
        chk.inconclusive('byte-order detection block not found in w2c2_base.h')
        return
    inc = os.path.join(d, 'fakeinc')
    for sub, order in (('be', '__BIG_ENDIAN'), ('le', '__LITTLE_ENDIAN')):
        os.makedirs(os.path.join(inc, sub), exist_ok=True)
        open(os.path.join(inc, sub, 'endian.h'), 'w').write('#define __LITTLE_ENDIAN 1234\n#define __BIG_ENDIAN 4321\n#define __BYTE_ORDER %s\n' % order)
    tu = os.path.join(d, 'detect.c')
    open(tu, 'w').write(src[a:b] + '\nDETECTED_ORDER=WASM_ENDIAN\n')
    GCC46 = ['-D__ORDER_LITTLE_ENDIAN__=1234', '-D__ORDER_BIG_ENDIAN__=4321', '-D__ORDER_PDP_ENDIAN__=3412']
    envs = [
        ('gcc>=4.6 big-endian target', GCC46 + ['-D__BYTE_ORDER__=4321'], 1),
        ('gcc>=4.6 little-endian target', GCC46 + ['-D__BYTE_ORDER__=1234'], 0),
        ('gcc>=4.6 big-endian target that also defines an LE-looking arch macro', GCC46 + ['-D__BYTE_ORDER__=4321', '-D__ARMEL__=1'], 1),
        ('old gcc on big-endian glibc', ['-D__GLIBC__=2', '-I', os.path.join(inc, 'be')], 1),
        ('old gcc on little-endian glibc', ['-D__GLIBC__=2', '-I', os.path.join(inc, 'le')], 0),
        ('Solaris cc SPARC (_BIG_ENDIAN)', ['-D_BIG_ENDIAN=1', '-D__sparc=1'], 1),
        ('Solaris cc x86 (_LITTLE_ENDIAN)', ['-D_LITTLE_ENDIAN=1', '-D__i386__=1'], 0),
        ('Apple gcc 4.0 PowerPC (__BIG_ENDIAN__)', ['-D__BIG_ENDIAN__=1', '-D__ppc__=1'], 1),
        ('Apple gcc 4.0 i386 (__LITTLE_ENDIAN__)', ['-D__LITTLE_ENDIAN__=1', '-D__i386__=1'], 0),
    ]
    for m in ('__sparc', '__sparc__', '_POWER', '__powerpc__', '__ppc__', '__hpux', '__hppa', '_MIPSEB', '__MIPSEB__', '__AARCH64EB__', '__ARMEB__', '__ARM_BIG_ENDIAN', '__s390__'):
        envs.append(('architecture macro %s only' % m, ['-D%s=1' % m], 1))
    for m in ('__i386__', '_M_IX86', '__alpha__', '__ia64__', '__amd64__', '__x86_64__', '_M_X64', '_M_ARM64', '__AARCH64EL__', '__ARMEL__', '_MIPSEL', '__MIPSEL__'):
        envs.append(('architecture macro %s only' % m, ['-D%s=1' % m], 0))
    for cc in ('gcc', 'clang'):
        for name, defs, want in envs:
            r = env.run([cc, '-E', '-P', '-undef', '-nostdinc'] + defs + [tu], timeout=60)
            chk.ev()
            chk.distinct(('detect', cc, name))
            got = None
            for l in r.out.splitlines():
                if l.startswith('DETECTED_ORDER='):
                    got = l.split('=')[1].strip()
            if r.rc != 0 or got not in ('0', '1'):
                chk.violation('C19:detection:%s' % ('big' if want else 'little'), 'byte-order cascade under the macro environment "%s" (%s): preprocessing failed or no order selected: %s' % (name, cc, (r.err or r.out)[-200:]),
                              {'detect.c': open(tu).read(), 'defs.txt': ' '.join(defs)})
            elif int(got) != want:
                chk.violation('C19:detection:%s' % ('big' if want else 'little'), 'byte-order cascade under the macro environment "%s" (%s) selects %s-endian, the environment is %s-endian' % (
                    name, cc, 'big' if got == '1' else 'little', 'big' if want else 'little'), {'detect.c': open(tu).read(), 'defs.txt': ' '.join(defs)})
    chk.observe('detection_environments', len(envs), 'set')


def high_probe(chk, d):
    """Accesses at effective addresses around and above 2^31 on a memory larger than 2 GiB under both byte-order settings."""
    outs = {}
    for tag, defs in (('le', []), ('be', ['-DWASM_ENDIAN=1'])):
        exe = os.path.join(d, 'highprobe-' + tag)
        r = env.run(['gcc', '-O1', '-g', '-w', '-DWASM_THREADS_PTHREADS'] + defs + ['-I', e2e.base_include(), os.path.join(env.VERIF, 'harness', 'endian_high_probe.c'),
                     '-o', exe, '-lpthread', '-lm'], timeout=300)
        if r.rc != 0:
            chk.violation('C19:compile:high-probe:%s' % tag, 'high-address probe does not build (%s): %s' % (tag, r.err[-1200:]))
            return
        outs[tag] = env.run([exe, str(env.SEED)], timeout=300)
    rl, rb = outs['le'], outs['be']
    files = {'le.txt': rl.out[-60000:], 'be.txt': rb.out[-60000:], 'stderr.txt': (rl.err + rb.err)[-2000:]}
    if 'SKIP' in rl.out or 'SKIP' in rb.out:
        chk.observe('high_address_probe', 'skipped: host cannot reserve the memory', 'set')
        return
    if rl.rc != 0 or 'DONE' not in rl.out:
        chk.inconclusive('high-address probe failed on the host-order build: rc %s' % rl.rc)
        return
    if rb.rc != 0 or 'DONE' not in rb.out:
        last = [l for l in rb.out.splitlines() if l.startswith('A ')][-1:] or ['']
        chk.violation('C19:high-address:crash', 'forced big-endian build dies at an address >= 2^31 (rc %s) after "%s"; the host-order build completes' % (rb.rc, last[0][:80]), files)
        return
    la = [l.split() for l in rl.out.splitlines() if l.startswith('A ')]
    ba = [l.split() for l in rb.out.splitlines() if l.startswith('A ')]
    chk.observe('high_address_probe', 'ran %d accesses' % len(la), 'set')
    if len(la) != len(ba):
        chk.violation('C19:high-address:mismatch', 'different number of probe lines', files)
        return
    for x, y in zip(la, ba):
        chk.ev()
        chk.distinct(('high', x[1], x[2]))
        w = int(x[3])
        if x[4] != y[4]:
            chk.violation('C19:high-address:%s:value' % x[2], '%s at address 0x%s: big-endian build returns 0x%s, little-endian build 0x%s' % (x[2], x[1], y[4], x[4]), files)
            return
        if bytes.fromhex(y[5]) != bytes.fromhex(x[5])[::-1]:
            chk.violation('C19:high-address:%s:bytes' % x[2], '%s at address 0x%s: big-endian build leaves %s, expected the %d-byte reversal of %s' % (x[2], x[1], y[5], w, x[5]), files)
            return


def tear_probe(chk, d, quick):
    """Atomic accessors across threads under both byte-order settings and both compilers (harness/endian_tear_probe.c): no torn value is
    ever loaded, rmw.add hands out every old value exactly once, sub / cmpxchg loops conserve."""
    rounds = 200000 if quick else 3000000
    for cc in ('gcc', 'clang'):
        for tag, defs in (('le', []), ('be', ['-DWASM_ENDIAN=1'])):
            for opt in (['-O2'] if quick else ['-O2', '-O0']):
                exe = os.path.join(d, 'tear-%s-%s%s' % (cc, tag, opt))
                r = env.run([cc, opt, '-g', '-w', '-DWASM_THREADS_PTHREADS'] + defs + ['-I', e2e.base_include(), os.path.join(env.VERIF, 'harness', 'endian_tear_probe.c'),
                             '-o', exe, '-lpthread', '-lm'], timeout=300)
                if r.rc != 0:
                    chk.violation('C19:compile:tear-probe:%s:%s' % (cc, tag), 'atomic tear probe does not build (%s %s %s): %s' % (cc, opt, tag, r.err[-1200:]))
                    continue
                for rep in range(2 if quick else 6):
                    rr = env.run([exe, str(env.SEED + rep), str(rounds)], timeout=600)
                    files = {'cmd.txt': '%s %s %s endian_tear_probe.c; ./probe %d %d' % (cc, opt, ' '.join(defs), env.SEED + rep, rounds), 'out.txt': rr.out[-4000:], 'stderr.txt': rr.err[-2000:]}
                    if rr.timeout:
                        chk.inconclusive('tear probe timed out (%s %s %s)' % (cc, opt, tag))
                        continue
                    done = [l for l in rr.out.splitlines() if l.startswith('DONE')]
                    if rr.rc != 0 or not done:
                        chk.violation('C19:tear-probe:crash:%s:%s' % (cc, tag), 'atomic tear probe died (rc %s) built with %s %s for %s byte order' % (rr.rc, cc, opt, tag), files)
                        continue
                    kv = dict(x.split('=') for x in done[0].split()[1:])
                    chk.ev(int(kv['loads']))
                    chk.distinct(('tear', cc, tag, opt, rep))
                    chk.observe('tear_probe_atomic_loads_%s_%s' % (cc, tag), int(kv['loads']))
                    if int(kv['torn']):
                        t = [l for l in rr.out.splitlines() if l.startswith('T ')][0].split()
                        chk.violation('C19:atomic-load-torn:%s:%s' % (tag, t[2]), '%s build (%s %s): %s returned %s, a byte-wise mix of two stored values (%s torn loads of %s)' % (
                            tag, cc, opt, t[2], t[3], kv['torn'], kv['loads']), files)
                    if int(kv['count_bad']):
                        c = [l for l in rr.out.splitlines() if l.startswith('C ')][0]
                        chk.violation('C19:atomic-rmw-conservation:%s' % tag, '%s build (%s %s): %s (%s failures)' % (tag, cc, opt, c[2:], kv['count_bad']), files)


def wasi_probe(chk, d, quick):
    """The WASI host under both byte-order settings. A trampoline module (every WASI import + typed accessors st8..st64 / ld8..ld64, all
    translated by w2c2) is linked with wasi.c twice, little-endian and forced big-endian. One scenario is driven through typed guest
    accesses only (the guest writes its vectors / subscriptions with wasm stores and reads every result with wasm loads of the spec'd
    width), with result pointers and structures at alignments 0..3. Both builds run on the SAME directory and must print the same lines."""
    from vlib import wasih
    import subprocess, time as _time

    def extra(m):
        for w, st, ld, t in ((8, 'i32.store8', 'i32.load8_u', I32), (16, 'i32.store16', 'i32.load16_u', I32), (32, 'i32.store', 'i32.load', I32), (64, 'i64.store', 'i64.load', I64)):
            m.add_func([I32, t], [], [], [('local.get', 0), ('local.get', 1), (st, 0, 0)], export='st%d' % w)
            m.add_func([I32], [t], [], [('local.get', 0), (ld, 0, 0)], export='ld%d' % w)

    w2c2 = env.build_translator('plain')
    mod = wasih.trampoline(extra=extra)
    exes = {}
    try:
        for tag, defs in (('le', []), ('be', ['-DWASM_ENDIAN=1'])):
            exes[tag], plan = wasih.build_driver(w2c2, os.path.join(d, 'wasi-' + tag), mod, ['-O1', '-g'], defs=defs)
    except env.HarnessError as ex:
        chk.violation('C19:wasi:compile', 'the WASI host does not build for one of the byte-order settings: %s' % str(ex)[-800:])
        return
    D = os.path.join(d, 'wasi-tree')
    os.makedirs(os.path.join(D, 'sub'), exist_ok=True)
    open(os.path.join(D, 'f'), 'wb').write(b'abcdefghijklmnopqrstuvwxyz')
    open(os.path.join(D, 'zz'), 'wb').write(b'z')
    if not os.path.lexists(os.path.join(D, 'lnk')):
        os.symlink('f', os.path.join(D, 'lnk'))
    order = [x for x in subprocess.run(['ls', '-f', D], capture_output=True, text=True).stdout.split('\n') if x]
    lines_of = {}
    tags = []          # parallel to the script lines: what the line observes (None = setup)

    def build_script(m):
        g = wasih.Guest(plan, 4096)
        g.instantiate(args=[b'prog', b'--flag', b'x'], envs=[b'A=1', b'LONGER_NAME=value'], preopens=[D])
        obs = []

        def call(name, args, what=None, abi='p1'):
            g.emit(('c 0 %d %s' % (plan.fk(abi + '_' + name if not name.startswith(('st', 'ld')) else name), ' '.join(hex(x & 0xffffffffffffffff) for x in args))).rstrip(), 'call')
            obs.append(what)

        def st(w, a, v):
            call('st%d' % w, [a, v])

        def sb(a, b):
            for i, x in enumerate(b):
                st(8, a + i, x)

        def ld(w, a, what):
            call('ld%d' % w, [a], what)

        def lb(a, n, what):
            for i in range(n):
                ld(8, a + i, what)
        R, S = 0x3000 + m, 0x2000 + m
        call('args_sizes_get', [R, R + 8], 'errno'); ld(32, R, 'argc'); ld(32, R + 8, 'argv-size')
        call('args_get', [0x4000 + m, 0x5000 + m], 'errno')
        for i in range(3):
            ld(32, 0x4000 + m + 4 * i, 'argv[%d]' % i)
        lb(0x5000 + m, 14, 'argv-bytes')
        call('environ_sizes_get', [R, R + 8], 'errno'); ld(32, R, 'envc'); ld(32, R + 8, 'env-size')
        call('environ_get', [0x4100 + m, 0x5100 + m], 'errno')
        for i in range(2):
            ld(32, 0x4100 + m + 4 * i, 'envp[%d]' % i)
        lb(0x5100 + m, 22, 'env-bytes')
        call('fd_prestat_get', [3, R], 'errno'); ld(8, R, 'prestat-tag'); ld(32, R + 4, 'prestat-len')
        call('fd_prestat_dir_name', [3, 0x6000 + m, len(D)], 'errno'); lb(0x6000 + m, min(len(D), 24), 'prestat-name')
        sb(0x100, b'f'); sb(0x110, b'lnk'); sb(0x120, b'.')
        rights = (1 << 1) | (1 << 2) | (1 << 5) | (1 << 6) | (1 << 21) | (1 << 22) | (1 << 23)
        call('path_open', [3, 1, 0x100, 1, 0, rights, rights, 0, R], 'errno'); ld(32, R, 'opened-fd')
        sb(0x7000, b'HELLO-endian')
        st(32, S, 0x7000); st(32, S + 4, 5); st(32, S + 8, 0x7005); st(32, S + 12, 7)
        call('fd_write', [4, S, 2, R], 'errno'); ld(32, R, 'nwritten')
        call('fd_seek', [4, 2, 0, R], 'errno'); ld(64, R, 'seek-result')
        call('fd_seek', [4, -1, 1, R], 'errno'); ld(64, R, 'seek-result')
        call('fd_tell', [4, R], 'errno'); ld(64, R, 'tell-result')
        st(32, S, 0x7100); st(32, S + 4, 3); st(32, S + 8, 0x7110 + m); st(32, S + 12, 9)
        call('fd_read', [4, S, 2, R], 'errno'); ld(32, R, 'nread'); lb(0x7100, 3, 'read-bytes'); lb(0x7110 + m, 9, 'read-bytes')
        call('fd_pread', [4, S, 2, 20, R], 'errno'); ld(32, R, 'nread'); lb(0x7100, 3, 'read-bytes')
        st(32, S, 0x7000); st(32, S + 4, 2)
        call('fd_pwrite', [4, S, 1, 24, R], 'errno'); ld(32, R, 'nwritten')
        call('fd_fdstat_get', [4, R], 'errno'); ld(8, R, 'fdstat-type'); ld(16, R + 2, 'fdstat-flags'); ld(64, R + 8, 'fdstat-rights'); ld(64, R + 16, 'fdstat-rights')
        # a file that the scenario never writes or reads; the harness gave it fixed times with utimensat before the run
        sb(0x130, b'zz')
        call('path_open', [3, 0, 0x130, 2, 0, (1 << 1) | (1 << 21), 0, 0, R], 'errno'); ld(32, R, 'opened-fd')
        call('fd_filestat_get', [5, R], 'errno')
        for off, w, what in ((0, 64, 'dev'), (8, 64, 'ino'), (16, 8, 'filetype'), (24, 64, 'nlink'), (32, 64, 'size'), (40, 64, 'atim'), (48, 64, 'mtim'), (56, 64, 'ctim')):
            ld(w, R + off, 'filestat-' + what)
        call('fd_filestat_get', [5, R], 'errno', abi='un')
        for off, w, what in ((0, 64, 'dev'), (8, 64, 'ino'), (16, 8, 'filetype'), (20, 32, 'nlink'), (24, 64, 'size'), (32, 64, 'atim'), (40, 64, 'mtim'), (48, 64, 'ctim')):
            ld(w, R + off, 'unstable-filestat-' + what)
        call('fd_close', [5], 'errno')
        call('path_filestat_get', [3, 1, 0x110, 3, R], 'errno')
        for off, w, what in ((8, 64, 'ino'), (16, 8, 'filetype'), (32, 64, 'size')):
            ld(w, R + off, 'path-filestat-' + what)
        call('path_filestat_get', [3, 0, 0x110, 3, R], 'errno')
        for off, w, what in ((8, 64, 'ino'), (16, 8, 'filetype'), (32, 64, 'size')):
            ld(w, R + off, 'path-filestat-nofollow-' + what)
        call('path_readlink', [3, 0x110, 3, 0x7200 + m, 64, R], 'errno'); ld(32, R, 'readlink-length'); lb(0x7200 + m, 1, 'readlink-bytes')
        call('fd_seek', [4, 3, 2, R], 'errno', abi='un'); ld(64, R, 'unstable-seek-result')
        call('path_open', [3, 0, 0x120, 1, 2, (1 << 14) | (1 << 21), 0, 0, R], 'errno'); ld(32, R, 'opened-fd')
        B = 0x8000 + m
        call('fd_readdir', [5, B, 2048, 0, R], 'errno'); ld(32, R, 'readdir-used')
        off = 0
        for nm in order:
            ld(64, B + off, 'dirent-next'); ld(64, B + off + 8, 'dirent-ino'); ld(32, B + off + 16, 'dirent-namlen'); ld(8, B + off + 20, 'dirent-type')
            lb(B + off + 24, len(nm.encode()), 'dirent-name')
            off += 24 + len(nm.encode())
        # second listing from the cookie of the first entry
        call('fd_readdir', [5, B, 2048, 1, R], 'errno'); ld(32, R, 'readdir-used'); ld(32, B + 16, 'dirent-namlen')
        call('clock_res_get', [1, R], 'errno'); ld(64, R, 'clock-res')
        call('clock_time_get', [0, 1, R], 'errno'); ld(64, R, 'TIME')
        call('fd_close', [5], 'errno'); call('fd_close', [4], 'errno')
        return g.script(), obs

    total = 0
    for m in (0, 1, 2, 3):
        script, obs = build_script(m)
        outs = {}
        t0 = int(_time.time() * 1e9)
        for tag in ('le', 'be'):
            open(os.path.join(D, 'f'), 'wb').write(b'abcdefghijklmnopqrstuvwxyz')
            if tag == 'le':
                os.utime(os.path.join(D, 'zz'), ns=(1234567890123456789, 987654321987654321))    # ctime moves here, once, before both runs
            rr, out = wasih.run_script(exes[tag], d, script, tag='wasi-%s-%d' % (tag, m), timeout=120)
            outs[tag] = (rr, [l for l in out if ' c ' in l])
        t1 = int(_time.time() * 1e9)
        files = {'script.txt': script, 'le.txt': '\n'.join(outs['le'][1]), 'be.txt': '\n'.join(outs['be'][1]), 'stderr.txt': (outs['le'][0].err + outs['be'][0].err).decode('latin-1')[-3000:]}
        if outs['le'][0].rc != 0 or len(outs['le'][1]) != len(obs):
            chk.inconclusive('WASI byte-order probe: the little-endian run failed (rc %s, %d of %d lines)' % (outs['le'][0].rc, len(outs['le'][1]), len(obs)))
            continue
        if outs['be'][0].rc != 0 or len(outs['be'][1]) != len(obs):
            chk.violation('C19:wasi:crash', 'WASI host built for big-endian dies in the scenario (rc %s after %d of %d calls) with structures at alignment %d; the little-endian build completes' % (
                outs['be'][0].rc, len(outs['be'][1]), len(obs), m), files)
            continue
        seen = set()
        for i, what in enumerate(obs):
            if what is None:
                continue
            total += 1
            a, b = outs['le'][1][i].split(' -> ')[-1], outs['be'][1][i].split(' -> ')[-1]
            if what == 'TIME':
                for tag, v in (('le', a), ('be', b)):
                    ns = int(v.split(':')[1], 16)
                    if not (t0 - 5 * 10**9 <= ns <= t1 + 5 * 10**9) and ('time', tag) not in seen:
                        seen.add(('time', tag))
                        (chk.violation if tag == 'be' else chk.inconclusive)(*(('C19:wasi:clock_time_get', 'clock_time_get read back by the guest as %d ns, wall clock %d..%d (%s build)' % (ns, t0, t1, tag), files) if tag == 'be' else ('clock reading implausible on the little-endian build',)))
                continue
            if a != b and what not in seen:
                seen.add(what)
                chk.violation('C19:wasi:%s' % what.split('[')[0], 'guest reads %s as %s on the big-endian build and %s on the little-endian build (structures / result pointers at alignment %d, line "%s")' % (
                    what, b, a, m, outs['be'][1][i][:80]), files)
        chk.distinct(('wasi-probe', m))
    chk.ev(total)
    chk.observe('wasi_probe_guest_observations', total, 'set')


def main(chk):
    quick = chk.tier == 'quick'
    d = env.subdir('c19')
    exes = {}
    for cc in ('gcc', 'clang'):
      for tag, defs in (('le', []), ('be', ['-DWASM_ENDIAN=1'])):
        exe = os.path.join(d, 'probe-%s-%s' % (cc, tag))
        # UBSan alignment is off: the BE macros use typed pointers by design and C19 says nothing about alignment
        r = env.run([cc, '-O1', '-g', '-w', '-fsanitize=address', '-DWASM_THREADS_PTHREADS'] + defs + ['-I', e2e.base_include(),
                     os.path.join(env.VERIF, 'harness', 'endian_probe.c'), '-o', exe, '-lpthread', '-lm'], timeout=300)
        if r.rc != 0:
            chk.violation('C19:compile:%s' % tag, 'endian probe does not build (%s %s): %s' % (cc, tag, r.err[-1500:]))
            return
        exes[(cc, tag)] = exe
    nb = 8 if quick else 64
    per = 200 if quick else 400

    def one(i):
        seed = str(env.SEED * 1000 + i)
        cc = ('gcc', 'clang')[i % 2]    # the byte-swap primitives are chosen per compiler (builtins or shift-and-mask fallbacks)
        return i, env.run([exes[(cc, 'le')], seed, str(per)], env=env.SAN_ENV, timeout=300), env.run([exes[(cc, 'be')], seed, str(per)], env=env.SAN_ENV, timeout=300)

    for i, rl, rb in env.pmap(one, range(nb)):
        files = {'cmd.txt': 'endian_probe %d %d (le and be builds)' % (env.SEED * 1000 + i, per), 'le.txt': rl.out[-200000:], 'be.txt': rb.out[-200000:], 'stderr.txt': (rl.err + rb.err)[-4000:]}
        if rl.rc != 0 or rb.rc != 0 or 'DONE' not in rl.out or 'DONE' not in rb.out:
            chk.violation('C19:probe-crash', 'probe failed: le rc %s be rc %s: %s' % (rl.rc, rb.rc, (rl.err + rb.err)[-400:]), files)
            continue
        el, cl, sl, bl = parse(rl.out)
        eb, cb, sb, bb = parse(rb.out)
        if el != 0 or eb != 1:
            chk.inconclusive('builds did not select the expected byte orders (le=%s be=%s)' % (el, eb))
            continue
        if len(cl) != len(cb):
            chk.violation('C19:probe-mismatch', 'different number of cases in the two builds', files)
            continue
        # index LE cases by position: same order; variant v of BE must match variant 1-v of LE
        j = 0
        while j + 1 < len(cl):
            n0, w0, k0, a0, v0, r0, b0 = cl[j]
            if k0 == 'bulk':
                nb_, wb_, kb_, ab_, vb_, rb_, bb_ = cb[j]
                chk.ev()
                chk.distinct((n0, a0 % 4))
                if (rb_, bb_) != (r0, b0):
                    chk.violation('C19:%s:reversal-in-bulk-op' % n0, '%s: big-endian build leaves %s, little-endian build %s' % (n0, bb_.hex(), b0.hex()), files)
                j += 1
                continue
            # pairs (variant 0, variant 1)
            L0, L1 = cl[j], cl[j + 1]
            B0, B1 = cb[j], cb[j + 1]
            j += 2
            bytes_w = w0 // 8 if k0 in ('aload', 'astore', 'rmw', 'cas-match', 'cas-miss') else w0
            for Bx, Ly in ((B0, L1), (B1, L0)):
                chk.ev()
                chk.distinct((n0, a0 % 8, Bx[4]))
                want_after = rev(Ly[6], a0, bytes_w)
                if Bx[5] != Ly[5]:
                    chk.violation('C19:%s:value' % n0, '%s (width %d bytes) at offset %d: big-endian build returns %#x, little-endian build on the byte-reversed cell returns %#x' % (n0, bytes_w, a0, Bx[5], Ly[5]), files)
                    break
                if Bx[6] != want_after:
                    aspect = 'neighbours' if rev(Bx[6], a0, bytes_w)[:a0] != Ly[6][:a0] or rev(Bx[6], a0, bytes_w)[a0 + bytes_w:] != Ly[6][a0 + bytes_w:] else 'bytes'
                    chk.violation('C19:%s:%s' % (n0, aspect), '%s (width %d bytes) at offset %d: big-endian build leaves %s, expected one %d-byte reversal of the little-endian result %s' % (
                        n0, bytes_w, a0, Bx[6].hex(), bytes_w, Ly[6].hex()), files)
                    break
            # 8-bit: additionally BE == LE on the same window
            if bytes_w == 1 and (B0[5], B0[6]) != (L0[5], L0[6]):
                chk.violation('C19:%s:8-bit-differs' % n0, '8-bit access differs between the builds', files)
        for (x, s_le), (x2, s_be) in zip(sl, sb):
            chk.ev()
            widths = {'S': 16, 'I': 32, 'Q': 64, 'f': 32, 'd': 64, 's': 16, 'i': 32, 'q': 64}
            for k_, bits in widths.items():
                # LE build: identity (value as passed in); BE build: one reversal of exactly `bits`
                if s_be[k_] != bswap(s_le[k_], bits):
                    chk.violation('C19:swap_%s' % k_, 'swap_%s: host-order build gives %#x, big-endian build %#x (expected the %d-bit reversal)' % (k_, s_le[k_], s_be[k_], bits), files)
        for (x, b_le), (x2, b_be) in zip(bl, bb):
            chk.ev()
            if b_le['f32'] != (x & 0xffffffff) or b_le['f64'] != x:
                chk.violation('C19:bufferRead:little-endian', 'immediates reader on the LE build returns f32=%#x f64=%#x for bytes of %#x' % (b_le['f32'], b_le['f64'], x), files)
            if b_be['f32'] != bswap(x & 0xffffffff, 32) or b_be['f64'] != bswap(x, 64):
                chk.violation('C19:bufferRead:big-endian', 'immediates reader on the forced-BE build returns f32=%#x f64=%#x, expected the big-endian reading %#x / %#x' % (
                    b_be['f32'], b_be['f64'], bswap(x & 0xffffffff, 32), bswap(x, 64)), files)
    wait_probe(chk, d, quick)
    high_probe(chk, d)
    detection_probe(chk, d)
    tear_probe(chk, d, quick)
    wasi_probe(chk, d, quick)
    chk.observe('flavours_probed', 14 + 9 + 14 + 42 + 7, 'set')
    chk.sample({'case': 'i64_atomic_rmw16_add_u on window X (BE build) vs on R(X) (LE build): same return value, after-windows related by one 2-byte reversal'})
    # ---- module level: translated histories must give the same call results on both builds (thorough, cheap enough for quick too)
    w2c2 = env.build_translator('plain')
    m = Module()
    m.mems.append((1, 1, False))
    m.exports.append(('mem', 'memory', 0))
    names = []
    for n, c, t, w in wasm.LOADS:
        conv = {F32: [('i32.reinterpret_f32',)], F64: [('i64.reinterpret_f64',)]}.get(t, [])
        m.add_func([I32], [I32 if t in (I32, F32) else I64], [], [('local.get', 0), (n, 0, 0)] + conv, export=n)
        names.append((n, 'load', w, t))
    for n, c, t, w in wasm.STORES:
        conv = {F32: [('f32.reinterpret_i32',)], F64: [('f64.reinterpret_i64',)]}.get(t, [])
        m.add_func([I32, I32 if t in (I32, F32) else I64], [], [], [('local.get', 0), ('local.get', 1)] + conv + [(n, 0, 0)], export=n)
        names.append((n, 'store', w, t))
    m.datas.append(dict(mode='active', offset=[('i32.const', 0)], bytes=bytes(range(1, 200))))
    b = m.encode()
    plan = e2e.Plan(m)
    rnd = env.rng('c19-mod')
    lines = ['I 0']
    # width-homogeneous regions: region k (1024 bytes each) is only accessed with width k
    for step in range(1500 if quick else 4000):
        n, kind, w, t = rnd.choice(names)
        base = {1: 1024, 2: 2048, 4: 4096, 8: 8192}[w]
        a = base + rnd.randrange(0, 1024 - w, w)
        if kind == 'load':
            lines.append('c 0 %d %s' % (plan.fk(n), hex(a)))
        else:
            bits = 32 if t in (I32, F32) else 64
            lines.append('c 0 %d %s %s' % (plan.fk(n), hex(a), hex(rnd.getrandbits(bits))))
    script = '\n'.join(lines) + '\n'
    md = os.path.join(d, 'mod')
    sl_, ol, _ = e2e.build_and_run(w2c2, b, plan, script, os.path.join(md, 'le'), cflags=['-O1'])
    sb_, ob, _ = e2e.build_and_run(w2c2, b, plan, script, os.path.join(md, 'be'), cflags=['-O1'], cdefs=['-DWASM_ENDIAN=1'])
    files = {'module.wasm': b, 'script.txt': script}
    if sl_ != 'ok' or sb_ != 'ok':
        chk.violation('C19:module:%s' % (sb_ if sb_ != 'ok' else sl_), 'module-level build/run failed: %s' % str(ob if sb_ != 'ok' else ol)[:600], files)
    else:
        chk.ev(len(ol))
        for x, y in zip(ol, ob):
            if x != y:
                p = diff.parse_call(x)
                chk.violation('C19:module:%s' % (plan.exports[p[1]]['name'] if p else 'line'), 'translated module gives "%s" on the host-order build and "%s" on the forced big-endian build' % (x, y), files)
                break
    chk.assume('no big-endian CPU, cross-compiler or emulator exists in the sandbox: the big-endian code paths are compiled and run on the little-endian host (WASM_ENDIAN=1), so the property is decided as the exact byte-reversal relation between the two configurations')


def replay(chk, path):
    print(open(os.path.join(path, 'cmd.txt')).read())
    chk.ev(2)
    chk.distinct(1)
    chk.distinct(2)
