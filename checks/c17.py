"""C17 memory.atomic.wait / notify: no lost wake-ups, exact counts, exact return codes.

a. Emission probes (single thread, generic driver + futex library): static offsets {0,4,8,1024,65532}; the cell at A equals
   the expected value but the cell at A+offset does not => wait must return 1 at once; reverse arrangement with a 1 ms
   timeout => 2.
b. Protocol histories (harness/futex_stress.c): waiters and notifiers on child instances, colliding bucket addresses,
   finite/zero/infinite timeouts, injected spurious wake-ups and yields at hook points. Two scenario families (handshake
   without rescue, free-for-all with rescue rounds). Monitors:
   - boundary log: per effective address conservation (sum of notify results == number of waits returning 0), notify
     result <= count, interval matching of woken waits to notifies, return-code legality from logged cell history,
     timeouts only for finite timeouts and not early;
   - internal events replayed against a sequential model: every notify returns exactly min(count, |Waiting on addr|), no
     waiter is counted twice, no timed-out waiter is counted;
   - quiescence invariant (handshake): a parked waiter when nobody else can act is a lost wake-up;
   - wait list/map empty at the end; ASan (freed nodes), TSan (races) builds.
"""
import os, shutil, collections
from vlib import env, e2e, wasm, san, diff
from vlib.wasm import *

LEVEL = 'exploration'
RULE = ('(a) probe calls with expected return codes; (b) histories: evaluation = one logged event (boundary or internal); distinct = distinct '
        'order signatures of (enqueue, notify) events per history plus (scenario, waiters, notifiers, addresses, build)')

OFFS = [0, 4, 8, 1024, 65532]
WAIT_CALL, WAIT_RET, NOTIFY_CALL, NOTIFY_RET, ADD_CALL, ADD_RET, ENQ, DEQ, N_ENTER, N_LEFT = 1, 2, 3, 4, 5, 6, 10, 11, 12, 13


def build_module():
    m = Module()
    m.mems.append((2, 2, True))
    m.exports.append(('mem', 'memory', 0))
    m.add_func([I32], [I32], [], [('local.get', 0), ('i32.atomic.load', 2, 0)], export='load32')
    m.add_func([I32, I32], [I32], [], [('local.get', 0), ('local.get', 1), ('i32.atomic.rmw.add', 2, 0)], export='add32')
    m.add_func([I32, I32], [], [], [('local.get', 0), ('local.get', 1), ('i32.atomic.store', 2, 0)], export='store32')
    m.add_func([I32, I64], [], [], [('local.get', 0), ('local.get', 1), ('i64.atomic.store', 3, 0)], export='store64')
    for o in OFFS:
        m.add_func([I32, I32, I64], [I32], [], [('local.get', 0), ('local.get', 1), ('local.get', 2), ('memory.atomic.wait32', 2, o)], export='wait32_o%d' % o)
        m.add_func([I32, I32], [I32], [], [('local.get', 0), ('local.get', 1), ('memory.atomic.notify', 2, o)], export='notify_o%d' % o)
        if o % 8 == 0:
            m.add_func([I32, I64, I64], [I32], [], [('local.get', 0), ('local.get', 1), ('local.get', 2), ('memory.atomic.wait64', 3, o)], export='wait64_o%d' % o)
    # the same instructions in expression context: other operands (of several types) are pending beneath them and are consumed afterwards
    m.add_func([I32, I32], [I32], [], [('local.get', 0), ('local.get', 1), ('i32.const', 1), ('memory.atomic.notify', 2, 0), ('i32.add',)], export='ctx_notify')
    m.add_func([I32, I32], [I64], [(1, I64)], [('i64.const', 5000000000), ('f64.const', 0x4004000000000000), ('local.get', 0), ('local.get', 1), ('i32.const', 3), ('memory.atomic.notify', 2, 4), ('i32.add',),
                                      ('i64.extend_i32_u',), ('local.set', 2), ('i64.trunc_f64_s',), ('i64.add',), ('local.get', 2), ('i64.add',)], export='ctx_notify_deep')
    m.add_func([I32, I32, I32], [I32], [], [('local.get', 0), ('local.get', 1), ('local.get', 2), ('i64.const', 0), ('memory.atomic.wait32', 2, 0), ('i32.add',)], export='ctx_wait32')
    m.add_func([I32, I32, I64], [I64], [(1, I64)], [('f32.const', 0x40a00000), ('local.get', 0), ('i64.extend_i32_u',), ('local.get', 1), ('local.get', 2), ('i64.const', 0), ('memory.atomic.wait64', 3, 8),
                                           ('i64.extend_i32_u',), ('i64.add',), ('local.set', 3), ('i64.trunc_f32_s',), ('local.get', 3), ('i64.add',)], export='ctx_wait64')
    return m


def futex_sources():
    return [os.path.join(env.REPO, 'futex', f) for f in ('futex.c', 'list.c', 'map.c')]


def probes(chk, w2c2):
    m = build_module()
    b = m.encode()
    plan = e2e.Plan(m)
    lines = ['I 0']
    exp = []
    A = 2048
    for o in OFFS:
        for kind in ('wait32', 'wait64'):
            if kind == 'wait64' and o % 8:
                continue
            fk = plan.fk('%s_o%d' % (kind, o))
            st = plan.fk('store32')
            # cell at A == expected (7), cell at A+offset != expected  => must return 1 ("not-equal") immediately
            lines += ['c 0 %d %s 0x7' % (st, hex(A)), 'c 0 %d %s 0x0' % (st, hex(A + 4)), 'c 0 %d %s 0x9' % (st, hex(A + o)), 'c 0 %d %s 0x0' % (st, hex(A + o + 4))]
            if o == 0:
                lines[-2] = 'c 0 %d %s 0x7' % (st, hex(A))
            exp += [None] * 4
            lines.append('c 0 %d %s 0x7 %s' % (fk, hex(A), hex(200000000 if o else 1000000)))  # finite, so that a wrong address shows as 2, not as a hang
            exp.append((1 if o else 2, '%s offset=%d: cell at base equals expected, cell at base+offset differs' % (kind, o)))
            # reverse: cell at A differs, cell at A+offset equals expected; 1 ms timeout => must block and time out (2)
            lines += ['c 0 %d %s 0x9' % (st, hex(A)), 'c 0 %d %s 0x7' % (st, hex(A + o))]
            if o == 0:
                lines[-2] = 'c 0 %d %s 0x7' % (st, hex(A))
            exp += [None] * 2
            lines.append('c 0 %d %s 0x7 %s' % (fk, hex(A), hex(1000000)))
            exp.append((2, '%s offset=%d: cell at base+offset equals expected, 1 ms timeout' % (kind, o)))
        if o % 8 == 0:
            # comparison width: wait64 compares all 64 bits (halves that differ only high or only low), wait32 only its own word
            fk64, st64 = plan.fk('wait64_o%d' % o), plan.fk('store64')
            fk32 = plan.fk('wait32_o%d' % o)
            cell = 0x0000000500000007
            for expv, want, what in ((0x0000000600000007, 1, 'expected differs in the HIGH half only'), (0x0000000500000008, 1, 'expected differs in the LOW half only'),
                                     (0x0000000500000007, 2, 'expected equals the whole cell (non-zero high half)'), (0x8000000500000007, 1, 'expected differs in bit 63 only')):
                lines.append('c 0 %d %s %s' % (st64, hex(A + o), hex(cell)))
                exp.append(None)
                lines.append('c 0 %d %s %s %s' % (fk64, hex(A), hex(expv), hex(1000000)))
                exp.append((want, 'wait64 offset=%d: %s' % (o, what)))
            lines.append('c 0 %d %s %s' % (st64, hex(A + o), hex(cell)))
            exp.append(None)
            lines.append('c 0 %d %s 0x7 %s' % (fk32, hex(A), hex(1000000)))
            exp.append((2, 'wait32 offset=%d: own word equals expected, neighbouring word is non-zero' % o))
            lines.append('c 0 %d %s 0x5 %s' % (fk32, hex(A + 4), hex(1000000)))
            exp.append((2, 'wait32 offset=%d: on the upper word of a 64-bit cell' % o))
        nk = plan.fk('notify_o%d' % o)
        lines.append('c 0 %d %s 0x5' % (nk, hex(A)))
        exp.append((0, 'notify offset=%d with no waiters' % o))
    # expression context
    st32, st64 = plan.fk('store32'), plan.fk('store64')
    lines += ['c 0 %d 0x900 0x7' % st32, 'c 0 %d 0x908 0x1100000022' % st64]
    exp += [None, None]
    for line, want, what in (('c 0 %d 0x64 0x900' % plan.fk('ctx_notify'), 100, 'notify offset=0 in expression context (operand pending beneath), no waiters'),
                             ('c 0 %d 0x64 0x900' % plan.fk('ctx_notify_deep'), 5000000000 + 2 + 100, 'notify offset=4 beneath i64 / f64 operands, no waiters'),
                             ('c 0 %d 0x64 0x900 0x7' % plan.fk('ctx_wait32'), 102, 'wait32 offset=0 in expression context, equal, timeout 0'),
                             ('c 0 %d 0x64 0x900 0x8' % plan.fk('ctx_wait32'), 101, 'wait32 offset=0 in expression context, different'),
                             ('c 0 %d 0x64 0x900 0x1100000022' % plan.fk('ctx_wait64'), 5 + 100 + 2, 'wait64 offset=8 beneath an f32 operand, equal, timeout 0'),
                             ('c 0 %d 0x64 0x900 0x1100000023' % plan.fk('ctx_wait64'), 5 + 100 + 1, 'wait64 offset=8 beneath an f32 operand, different')):
        lines.append(line)
        exp.append((want, what))
    script = '\n'.join(lines) + '\n'
    d = env.subdir('c17-probe')
    st, out, r = e2e.build_and_run(w2c2, b, plan, script, d, cflags=['-O1', '-g', '-fsanitize=address,undefined', '-fno-sanitize-recover=all'],
                                   cdefs=['-DWASM_THREADS_PTHREADS', '-I', os.path.join(env.REPO, 'futex')], link=futex_sources() + ['-lpthread'], timeout=120)
    files = {'module.wasm': b, 'script.txt': script}
    if st != 'ok':
        chk.violation('C17:probe:%s' % st, 'emission probe module failed at %s: %s' % (st, str(out)[:1500]), files)
        return
    for (e, line) in zip(exp, out[1:]):
        if e is None:
            continue
        chk.ev()
        chk.distinct(('probe', e[1]))
        p = diff.parse_call(line)
        got = int(p[3].split(':')[1], 16) if p and ':' in p[3] and not p[3].startswith('trap') else p[3] if p else line
        if got != e[0]:
            op = e[1].split(' ')[0]
            off = e[1].split('offset=')[1].split(':')[0].split(' ')[0]
            chk.violation('C17:offset-ignored:%s' % op if off != '0' else 'C17:probe:%s' % op, '%s: returned %s, expected %d' % (e[1], got, e[0]), files)
    chk.sample({'part': 'a', 'probe': 'wait32 offset=1024: base cell == expected, base+1024 cell != expected -> must return 1'})


# ------------------------------------------------------------------ offline checkers
def parse_log(text):
    evs = []
    meta = {'parked': [], 'end': None, 'hang': False, 'overflow': False, 'done': False}
    for l in text.splitlines():
        if l.startswith('E '):
            t = l.split(' ')
            evs.append((int(t[1]), int(t[2]), int(t[3]), int(t[4]), int(t[5]), int(t[6])))
        elif l.startswith('PARKED'):
            meta['parked'].append(l)
        elif l.startswith('END'):
            meta['end'] = dict(x.split('=') for x in l.split(' ')[1:])
        elif l.startswith('HANG'):
            meta['hang'] = True
        elif l.startswith('OVERFLOW'):
            meta['overflow'] = True
        elif l.startswith('DONE'):
            meta['done'] = True
    evs.sort()
    return evs, meta


def check_history(evs, meta, guard):
    """Returns (violations [(key, text)], stats dict)."""
    V = []
    stats = collections.Counter()
    # pair boundary events per thread
    open_wait = {}
    waits = []  # dict(tid, addr, exp, timeout, call, ret, result, elapsed)
    notifies = []  # dict(addr, count, call, ret, result)
    open_notify = {}
    adds = collections.defaultdict(list)  # addr -> [(call_seq, ret_seq, newvalue)]
    open_add = {}
    for seq, tid, kind, addr, a, b in evs:
        if kind == WAIT_CALL:
            open_wait[tid] = dict(tid=tid, addr=addr, exp=a, timeout=b if b < 2**63 else b - 2**64, call=seq)
        elif kind == WAIT_RET:
            w = open_wait.pop(tid, None)
            if w:
                w.update(ret=seq, result=a, elapsed=b)
                waits.append(w)
        elif kind == NOTIFY_CALL:
            open_notify[tid] = dict(tid=tid, addr=addr, count=a, call=seq)
        elif kind == NOTIFY_RET:
            n = open_notify.pop(tid, None)
            if n:
                n.update(ret=seq, result=a)
                notifies.append(n)
        elif kind == ADD_CALL:
            open_add[tid] = seq
        elif kind == ADD_RET:
            adds[addr].append((open_add.pop(tid, seq), seq, a))
    stats['waits'] = len(waits)
    stats['notifies'] = len(notifies)
    stats['waits_woken'] = sum(1 for w in waits if w['result'] == 0)
    stats['waits_not_equal'] = sum(1 for w in waits if w['result'] == 1)
    stats['waits_timed_out'] = sum(1 for w in waits if w['result'] == 2)
    # --- boundary: conservation + bound
    by_addr_w = collections.defaultdict(list)
    by_addr_n = collections.defaultdict(list)
    for w in waits:
        by_addr_w[w['addr']].append(w)
    for n in notifies:
        by_addr_n[n['addr']].append(n)
        if n['result'] > n['count']:
            V.append(('C17:notify-exceeds-count', 'notify(addr %d, count %d) returned %d' % (n['addr'], n['count'], n['result'])))
    if not open_wait:  # every wait returned
        for addr in set(by_addr_w) | set(by_addr_n):
            woken = sum(1 for w in by_addr_w[addr] if w['result'] == 0)
            claimed = sum(n['result'] for n in by_addr_n[addr])
            if woken != claimed:
                V.append(('C17:count-conservation', 'address %d: notifies claim %d woken waiters, %d waits returned 0' % (addr, claimed, woken)))
            else:
                # interval matching: each woken wait needs its own notify slot whose [call,ret] overlaps the wait's [call,ret]
                slots = []
                for n in by_addr_n[addr]:
                    slots += [(n['call'], n['ret'])] * n['result']
                ws = sorted([(w['call'], w['ret']) for w in by_addr_w[addr] if w['result'] == 0], key=lambda x: x[1])
                slots.sort()
                used = [False] * len(slots)
                for wc, wr in ws:
                    # earliest-deadline greedy: take the overlapping slot with the smallest return
                    best = None
                    for i, (nc, nr) in enumerate(slots):
                        if not used[i] and nc < wr and nr > wc:
                            if best is None or nr < slots[best][1]:
                                best = i
                    if best is None:
                        V.append(('C17:wake-without-overlapping-notify', 'address %d: a wait [%d,%d] returned 0 but no unused notify slot overlaps it' % (addr, wc, wr)))
                        break
                    used[best] = True
    # --- return-code legality from the cell history (32-bit cells, monotone counters bumped by logged adds)
    for w in waits:
        hist = sorted(adds.get(w['addr'], []), key=lambda x: x[2])  # by new value
        if w['exp'] >= 2**32:
            continue  # 64-bit expectations over two cells: legality judged only through the model / conservation
        # value v is certainly the cell content during (ret of add producing v, call of add producing v+1)
        prod = {nv: (c, r) for c, r, nv in hist}
        e = w['exp']
        if e == 0:
            start_certain = -1
        elif e in prod:
            start_certain = prod[e][1]
        else:
            start_certain = None  # value never produced
        nxt = prod.get(e + 1)
        end_certain = nxt[0] if nxt else float('inf')
        equal_throughout = start_certain is not None and start_certain < w['call'] and end_certain > w['ret']
        may_equal = (e == 0 or e in prod) and (prod[e][0] < w['ret'] if e in prod else True) and (nxt is None or nxt[1] > w['call'])
        if w['result'] == 1 and equal_throughout:
            V.append(('C17:retcode:not-equal-but-equal', 'wait(addr %d, expected %d) returned 1 although the cell held %d during the whole call' % (w['addr'], e, e)))
        if w['result'] in (0, 2) and not may_equal:
            V.append(('C17:retcode:blocked-but-never-equal', 'wait(addr %d, expected %d) returned %d although the cell never equalled %d during the call' % (w['addr'], e, w['result'], e)))
        if w['result'] == 2:
            if w['timeout'] < 0:
                V.append(('C17:retcode:timeout-on-infinite', 'wait with infinite timeout returned 2'))
            elif w['elapsed'] + 1000000 < w['timeout']:
                V.append(('C17:retcode:early-timeout', 'wait timed out after %d ns with a timeout of %d ns' % (w['elapsed'], w['timeout'])))
    # --- internal event model
    sig = []
    if guard:
        waiting = collections.Counter()
        pending = collections.Counter()
        cur_notify = {}
        enq_n = 0
        for seq, tid, kind, addr, a, b in evs:
            if kind == ENQ:
                waiting[addr] += 1
                enq_n += 1
                sig.append(('E', addr & 0xffff, tid))
            elif kind == N_ENTER:
                cur_notify[tid] = (addr, a)
            elif kind == N_LEFT:
                ent = cur_notify.pop(tid, None)
                count = ent[1] if ent else None
                want = min(count, waiting[addr]) if count is not None else None
                sig.append(('N', addr & 0xffff, a))
                if want is not None and a != want:
                    key = 'C17:model:notify-count'
                    if a > waiting[addr]:
                        key += ':more-than-waiting'
                    elif a < want:
                        key += ':missed-waiter'
                    V.append((key, 'notify(addr %d, count %d) returned %d while %d waiters were Waiting on that address' % (addr, count, a, waiting[addr])))
                n = min(a, waiting[addr])
                waiting[addr] -= n
                pending[addr] += n
            elif kind == DEQ:
                if a == 1:
                    if pending[addr] < 1:
                        V.append(('C17:model:woken-without-notify', 'a waiter on %d left with status Notified but no notify had claimed it' % addr))
                    else:
                        pending[addr] -= 1
                else:
                    if waiting[addr] < 1:
                        V.append(('C17:model:timed-out-but-counted', 'a waiter on %d left as timed-out but a notify had already counted it' % addr))
                    else:
                        waiting[addr] -= 1
        stats['enqueued'] = enq_n
        if not open_wait:
            for addr in set(waiting) | set(pending):
                if waiting[addr] or pending[addr]:
                    V.append(('C17:model:residue', 'address %d: %d waiting / %d notified-pending at the end' % (addr, waiting[addr], pending[addr])))
    # --- harness-side verdicts
    if meta['hang']:
        V.append(('C17:hang', 'threads stuck outside the wait list until the watchdog'))
    if meta['parked']:
        V.append(('C17:lost-wakeup:handshake', 'quiescent state with parked waiters in the handshake scenario: %s' % meta['parked'][:3]))
    if meta['end'] and (meta['end'].get('nodes') != '0' or meta['end'].get('buckets_empty') != '1'):
        V.append(('C17:futex-map-not-empty', 'wait nodes / map nodes left at the end: %s' % meta['end']))
    return V, stats, tuple(sig[:60])


def main(chk):
    quick = chk.tier == 'quick'
    w2c2 = env.build_translator('plain')
    probes(chk, w2c2)
    m = build_module()
    b = m.encode()
    d = env.subdir('c17')
    t = e2e.translate(w2c2, b, d, 'fx')
    if t.rc != 0:
        chk.violation('C17:translate', 'module rejected: %s' % t.err[-300:], {'module.wasm': b})
        return
    srcs = [os.path.join(d, f) for f in t.files if f.endswith('.c')] + [os.path.join(env.VERIF, 'harness', 'futex_stress.c')] + futex_sources()
    builds = [('plain-guard', ['-O1', '-g'], True), ('asan-guard', ['-O1', '-g', '-fsanitize=address,undefined', '-fno-sanitize-recover=all'], True),
              ('tsan-guard', ['-O1', '-g', '-fsanitize=thread'], True), ('plain-noguard', ['-O2', '-DNDEBUG'], False)]
    exes = {}
    for tag, fl, guard in builds:
        exe = os.path.join(d, 'fx-' + tag)
        r = env.run(['gcc'] + fl + ['-w', '-DWASM_THREADS_PTHREADS'] + (['-DW2C2_VERIF=1'] if guard else []) + ['-I', e2e.base_include(), '-I', os.path.join(env.REPO, 'futex'), '-I', d] + srcs +
                    ['-o', exe, '-lpthread', '-lm'], timeout=600)
        if r.rc != 0:
            chk.violation('C17:compile:%s' % tag, 'futex harness does not build: %s' % r.err[-1500:], {'module.wasm': b})
            continue
        exes[tag] = (exe, guard)
    nh = 1000 if quick else 6000
    jobs = []
    for k in range(nh):
        r0 = env.rng('c17', k)
        tag = ['plain-guard', 'plain-guard', 'asan-guard', 'tsan-guard', 'plain-noguard'][k % 5]
        if tag not in exes:
            continue
        scenario = k % 2
        W = r0.choice([1, 2, 3, 4, 8, 12])
        N = r0.choice([1, 1, 2, 3, 4])
        na = r0.choice([1, 2, 3, 4, 6])
        mode = r0.choice([3, 3, 1, 2, 0])
        jobs.append((k, tag, scenario, W, N, na, mode))

    hangs = {}

    def one(job):
        k, tag, scenario, W, N, na, mode = job
        exe, guard = exes[tag]
        if hangs.get(tag, 0) >= 3:
            return job, None     # three histories of this build already ran into the watchdog (each is judged): skip the rest of this build
        r = env.run([exe, str(env.SEED * 100000 + k), str(scenario), str(W), str(N), str(na), str(mode)],
                    env=dict(env.SAN_ENV, TSAN_OPTIONS='halt_on_error=0:exitcode=0:report_thread_leaks=0'), timeout=150)
        if r.timeout or 'HANG' in r.out:
            hangs[tag] = hangs.get(tag, 0) + 1
        return job, r

    total_events = 0
    blocked = 0
    waits = 0
    sigs = set()
    for (k, tag, scenario, W, N, na, mode), r in env.pmap(one, jobs):
        if r is None:
            chk.observe('histories_skipped_after_three_hangs_' + tag)
            continue
        exe, guard = exes[tag]
        cmd = 'futex_stress[%s] %d %d %d %d %d %d' % (tag, env.SEED * 100000 + k, scenario, W, N, na, mode)
        files = {'cmd.txt': cmd, 'stdout.txt': r.out[-200000:], 'stderr.txt': r.err[-8000:], 'module.wasm': b}
        for rp in san.parse_tsan(r.err, env.REPO):
            if rp['in_repo']:
                chk.violation('C17:' + rp['key'], 'ThreadSanitizer (%s): %s' % (cmd, rp['text'][:500]), files)
        reps = [x for x in san.parse(r.err) if not x[0].startswith('tsan')]
        if reps:
            chk.violation('C17:' + reps[0][0], 'sanitizer report (%s): %s' % (cmd, reps[0][1]), files)
            continue
        if r.timeout:
            # re-run once before reporting a hang (watchdog firing alone is inconclusive)
            r2 = env.run([exe] + cmd.split(' ')[1:], env=env.SAN_ENV, timeout=150)
            if r2.timeout:
                chk.violation('C17:hang:watchdog', 'history does not terminate (reproduced twice): %s' % cmd, files)
            else:
                chk.inconclusive('watchdog fired once for %s' % cmd)
            continue
        evs, meta = parse_log(r.out)
        if not meta['done'] and not meta['hang']:
            chk.violation('C17:crash:%s' % r.rc, 'harness died (%s): rc %s %s' % (cmd, r.rc, r.err[-300:]), files)
            continue
        if meta['overflow']:
            chk.inconclusive('event buffer overflow in %s' % cmd)
            continue
        V, stats, sig = check_history(evs, meta, guard)
        total_events += len(evs)
        chk.ev(len(evs))
        waits += stats['waits']
        blocked += stats['waits_woken'] + stats['waits_timed_out']
        for s_ in ('waits_woken', 'waits_not_equal', 'waits_timed_out', 'notifies', 'enqueued'):
            chk.observe(s_, stats[s_])
        chk.observe('histories_' + tag)
        chk.distinct((scenario, W, N, na, tag))
        if sig:
            sigs.add(sig)
            chk.distinct(sig)
        seen = set()
        for key, text in V:
            if key not in seen:
                seen.add(key)
                chk.violation(key, '%s [%s]' % (text, cmd), files)
    chk.observe('events_total', total_events, 'set')
    chk.observe('distinct_enqueue_notify_order_signatures', len(sigs), 'set')
    chk.observe('waits_that_blocked_fraction', round(blocked / max(1, waits), 3), 'set')
    if waits and blocked * 10 < waits * 3:
        chk.inconclusive('only %d of %d waits really blocked (floor 30%%)' % (blocked, waits))
    chk.sample({'part': 'b', 'history': 'scenario=handshake W=4 N=2 addrs=2 delays+spurious', 'events': 'E <seq> <tid> <kind> <addr> <a> <b>'})
    chk.assume('unbounded "eventually" is not decided: lost wake-ups are decided as a quiescent-state invariant in the handshake scenario and through the exact-count model; hangs need two watchdog firings')
    chk.assume('injected spurious wake-ups release and re-acquire the mutex like a real condition variable; delays are injected only outside the mutex')


def replay(chk, path):
    print(open(os.path.join(path, 'cmd.txt')).read())
    chk.ev(2)
    chk.distinct(1)
    chk.distinct(2)
