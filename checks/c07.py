"""C07 Every constant keeps its exact bit pattern through the generated C text.

Oracle = the constant itself. A module holds functions `() -> int` returning `<t>.const c` (floats through
reinterpret), globals initialised with c (read through getters), and data/element segments whose offset is c
(observed by where the marker byte / table entry lands). Compiled with gcc and clang at -O0 and -O2.
"""
import os, struct
from vlib import env, e2e, gen, wasm, diff
from vlib.wasm import *

LEVEL = 'exploration'
RULE = ('constants drawn per class (every NaN class x sign, +-0, +-inf, subnormals, extremes, 9/17-digit floats, powers of '
        'ten, integer extremes, LEB-length boundaries, uniform random); evaluation = one (constant, position, build) reading; '
        'distinct = distinct (type, bits, position)')


def classes(rnd, n_random, full=False):
    """yield (type, bits, class) for all constant classes."""
    out = []

    def add(t, bits, cls):
        out.append((t, bits, cls))

    # i32 / i64
    for t, w, B in ((I32, 32, gen.B32), (I64, 64, gen.B64)):
        for v in B:
            add(t, v, 'boundary')
        for k in range(w):
            add(t, 1 << k, 'pow2')
            add(t, (1 << k) - 1, 'pow2m1')
            add(t, ((1 << w) - (1 << k)) & ((1 << w) - 1), 'negpow2')
        # LEB128 length boundaries (signed): +-2^(7k-1)
        for k in range(1, 10):
            for v in ((1 << (7 * k - 1)) - 1, 1 << (7 * k - 1), -(1 << (7 * k - 1)), -(1 << (7 * k - 1)) - 1):
                if -(1 << (w - 1)) <= v < (1 << (w - 1)):
                    add(t, v & ((1 << w) - 1), 'leb-boundary')
        for _ in range(n_random):
            add(t, rnd.getrandbits(w), 'random')
        # decimal structure (the translator spells integers in base 10): a leading digit, a run of zeros of every length at every
        # position, then a short tail - and the same negated
        zr = []
        maxd = 9 if w == 32 else 18
        for a in range(1, maxd + 1):
            for bdig in range(0, a):
                hi = rnd.randint(1, 9)
                lo = rnd.randint(10 ** (bdig - 1), 10 ** bdig - 1) if bdig > 0 else 0
                v = hi * 10 ** a + lo
                if v < (1 << (w - 1)):
                    zr.append(v)
        for mult in (1, 2, 3, 4, 9):
            for e in (9, 18):
                for tail in (0, 5, 987654321):
                    v = mult * 10 ** e + tail
                    if v < (1 << (w - 1)):
                        zr.append(v)
        if not full and len(zr) > 120:
            zr = rnd.sample(zr, 120)
        for v in zr:
            add(t, v, 'decimal-zero-run')
            add(t, (-v) & ((1 << w) - 1), 'decimal-zero-run')
    # f32
    for sign in (0, 0x80000000):
        for payload, cls in ((1, 'nan-payload1'), (0x400000, 'nan-quiet-only'), (0x400001, 'nan-quiet-1'),
                             (0x200000, 'nan-signalling-hi'), (0x7fffff, 'nan-allones'), (0x3fffff, 'nan-signalling-allones'),
                             (0x000100, 'nan-mid'), (0x600000, 'nan-q-hi2')):
            add(F32, sign | 0x7f800000 | payload, cls)
        for k in range(23):
            add(F32, sign | 0x7f800000 | (1 << k), 'nan-bit%d' % k)
        add(F32, sign, 'zero')
        add(F32, sign | 0x7f800000, 'inf')
        add(F32, sign | 1, 'min-subnormal')
        add(F32, sign | 0x7fffff, 'max-subnormal')
        add(F32, sign | 0x800000, 'min-normal')
        add(F32, sign | 0x7f7fffff, 'max-finite')
    for v in gen.F32_SPECIAL:
        add(F32, v, 'special')
    for e in range(-45, 39):
        add(F32, f32_bits(float('1e%d' % e)) if abs(e) < 39 else 0, 'pow10')
    # every power of two (the literal writer classifies by exponent field; a finite value with an extreme exponent and a zero
    # significand sits next to the inf/NaN and subnormal classifications), d x 10^e (shortest %g spellings: a single digit with or
    # without exponent, no decimal point), small integers and halves
    for k in range(-149, 128):
        add(F32, f32_bits(2.0 ** k), 'pow2')
        if k % 4 == 0:
            add(F32, f32_bits(-(2.0 ** k)), 'pow2')
    for e in range(-45, 39):
        for dgt in range(1, 10):
            try:
                b_ = f32_bits(float('%de%d' % (dgt, e)))
            except OverflowError:
                continue
            if (b_ & 0x7f800000) != 0x7f800000 and (full or dgt in (1, 2, 4, 8) or (e + dgt) % 3 == 0):
                add(F32, b_, 'digit-pow10')
    for v in list(range(0, 21)) + [100, 1000, 65536, 16777216]:
        add(F32, f32_bits(float(v)), 'small-int')
        add(F32, f32_bits(v + 0.5), 'half')
    for k in range(-1074, 1024):
        if full or k >= 960 or k <= -1010 or k % 16 == 0:
            add(F64, f64_bits(2.0 ** k), 'pow2')
            if k % 4 == 0 or k >= 1016:
                add(F64, f64_bits(-(2.0 ** k)), 'pow2')
    for e in range(-323, 309):
        for dgt in range(1, 10):
            if full or (dgt in (1, 2, 4, 8) and e % 5 == 0) or (e + 7 * dgt) % 41 == 0:
                try:
                    b_ = f64_bits(float('%de%d' % (dgt, e)))
                except OverflowError:
                    continue
                if (b_ & 0x7ff0000000000000) != 0x7ff0000000000000:
                    add(F64, b_, 'digit-pow10')
    for v in list(range(0, 21)) + [100, 1000, 65536, 2 ** 32, 2 ** 53]:
        add(F64, f64_bits(float(v)), 'small-int')
        add(F64, f64_bits(v + 0.5), 'half')
    # floats needing all 9 digits: search
    cnt = 0
    while cnt < 60:
        b = rnd.getrandbits(32)
        if (b & 0x7f800000) == 0x7f800000:
            continue
        x = bits_f32(b)
        if f32_bits(float('%.8g' % x)) != b:
            add(F32, b, 'needs-9-digits')
            cnt += 1
    for _ in range(n_random):
        add(F32, rnd.getrandbits(32), 'random')
    for _ in range(n_random // 2):
        add(F32, 0x7f800000 | rnd.getrandbits(23) | (rnd.getrandbits(1) << 31), 'random-nan')
        add(F32, rnd.getrandbits(23) | (rnd.getrandbits(1) << 31), 'random-subnormal')
    # f64
    for sign in (0, 1 << 63):
        E = 0x7ff0000000000000
        for payload, cls in ((1, 'nan-payload1'), (1 << 51, 'nan-low23zero-canonical'), ((1 << 51) | 1, 'nan-quiet-1'),
                             (1 << 50, 'nan-low23zero-signalling'), ((1 << 52) - 1, 'nan-allones'),
                             (1 << 23, 'nan-low23zero-bit23'), (1 << 29, 'nan-low29zero'), (0x20000000 | 1 << 51, 'nan-low23zero-f32payload'),
                             (0x7fffff, 'nan-low23-ones'), (0x800000, 'nan-low23zero-bit23b'), (0xfffffff800000, 'nan-low23zero-hi-ones')):
            add(F64, sign | E | payload, cls)
        for k in range(52):
            add(F64, sign | E | (1 << k), 'nan-bit%d%s' % (k, '-low23zero' if k >= 23 else ''))
        add(F64, sign, 'zero')
        add(F64, sign | E, 'inf')
        add(F64, sign | 1, 'min-subnormal')
        add(F64, sign | ((1 << 52) - 1), 'max-subnormal')
        add(F64, sign | (1 << 52), 'min-normal')
        add(F64, sign | 0x7fefffffffffffff, 'max-finite')
    for v in gen.F64_SPECIAL:
        add(F64, v, 'special')
    for e in range(-323, 309, 7):
        add(F64, f64_bits(float('1e%d' % e)), 'pow10')
    cnt = 0
    while cnt < 60:
        b = rnd.getrandbits(64)
        if (b & 0x7ff0000000000000) == 0x7ff0000000000000:
            continue
        x = bits_f64(b)
        if f64_bits(float('%.16g' % x)) != b:
            add(F64, b, 'needs-17-digits')
            cnt += 1
    for _ in range(n_random):
        add(F64, rnd.getrandbits(64), 'random')
    for _ in range(n_random // 2):
        add(F64, 0x7ff0000000000000 | rnd.getrandbits(52) | (rnd.getrandbits(1) << 63), 'random-nan')
        add(F64, 0x7ff0000000000000 | (rnd.getrandbits(29) << 23) | (rnd.getrandbits(1) << 63), 'random-nan-low23zero')
        add(F64, rnd.getrandbits(52) | (rnd.getrandbits(1) << 63), 'random-subnormal')
    return out


def build_module(consts):
    """consts: list of (t, bits, cls). Returns (module, plan-ready info)."""
    m = Module()
    m.mems.append((1, 1, False))
    m.exports.append(('mem', 'memory', 0))
    m.tables.append((64, 64))
    m.exports.append(('tbl', 'table', 0))
    probes = []  # (export name, position, t, bits, cls)
    ngl = 0
    for i, (t, bits, cls) in enumerate(consts):
        it = I32 if t in (I32, F32) else I64
        conv = {F32: [('i32.reinterpret_f32',)], F64: [('i64.reinterpret_f64',)]}.get(t, [])
        # body position
        m.add_func([], [it], [], [('%s.const' % t, bits)] + conv, export='b%d' % i)
        probes.append(('b%d' % i, 'body', t, bits, cls))
        # global-initialiser position (every 4th constant, to bound module size)
        if i % 4 == 0:
            gi = len(m.globals)
            m.globals.append((t, bool(i % 8), [('%s.const' % t, bits)]))
            m.add_func([], [it], [], [('global.get', gi)] + conv, export='g%d' % i)
            probes.append(('g%d' % i, 'global-init', t, bits, cls))
            ngl += 1
    return m, probes


def run_module(chk, w2c2, k, consts, builds, seg_offsets):
    m, probes = build_module(consts)
    # segment-offset position: i32 constants in [0, 65535] as data offsets, [0, 63] as element offsets
    f0 = m.add_func([], [I32], [], [('i32.const', 7)], export='marker')
    for j, off in enumerate(seg_offsets['data']):
        m.datas.append(dict(mode='active', offset=[('i32.const', off)], bytes=bytes([0xA0 + (j & 0x3f)])))
    for j, off in enumerate(seg_offsets['elem']):
        m.elems.append((0, [('i32.const', off)], [f0]))
    b = m.encode()
    plan = e2e.Plan(m)
    lines = ['I 0']
    for name, pos, t, bits, cls in probes:
        lines.append('c 0 %d' % plan.fk(name))
    lines.append('w 0 0 0 65536')
    lines.append('T 0 0')
    script = '\n'.join(lines) + '\n'
    d = env.subdir('c07-%d' % k)
    ok, msg = e2e.validate_v8(b, d)
    if not ok:
        chk.inconclusive('V8 rejected generated constants module: ' + msg)
        return
    files = {'module.wasm': b, 'script.txt': script}
    kbuilds = list(builds)
    cenv = env.comma_locale_env() if k % 3 == 0 else None
    if cenv:
        # the same translation with the translator started under a locale whose decimal point is ',': the spelling of constants
        # must not depend on the environment of the translator process
        kbuilds.append(('gcc-O0+translator-in-comma-locale', 'gcc', ['-O0']))
    # the same module written as many implementation files by 16 writer threads at once (constants of different files are formatted
    # concurrently): the text of a constant must not depend on what another thread is formatting
    kbuilds.append(('gcc-O0+split-files-16-writers', 'gcc', ['-O0']))
    if not chk.tier == 'quick':
        kbuilds.append(('gcc-O0+split-files-16-writers-again', 'gcc', ['-O0']))
    for tag, cc, cflags in kbuilds:
        bd = os.path.join(d, tag.replace('+', '_'))
        topts = ['-f', str(max(1, len(probes) // 24)), '-t', '16'] if 'split-files' in tag else []
        st, out, r = e2e.build_and_run(w2c2, b, plan, script, bd, cc=cc, cflags=cflags, translate_env=cenv if 'comma-locale' in tag else None, opts=topts)
        if st != 'ok':
            chk.violation('C07:%s:%s' % (st, tag), 'constants module %d failed at stage %s (%s): %s' % (k, st, tag, str(out)[:1500]), files)
            continue
        for (name, pos, t, bits, cls), line in zip(probes, out[1:]):
            p = diff.parse_call(line)
            chk.ev()
            chk.distinct((t, bits, pos))
            chk.observe('class_%s_%s' % (t, cls.split('-bit')[0] if 'nan-bit' in cls else cls))
            if p is None or p[3].startswith('trap'):
                chk.violation('C07:%s:%s:trap' % (t, cls), '%s const %#x in %s: %s' % (t, bits, pos, line), files)
                continue
            got = int(p[3].split(':')[1], 16)
            if got != bits:
                c2 = cls
                if 'nan-bit' in cls:
                    c2 = 'nan-low23zero' if 'low23zero' in cls else 'nan-single-bit'
                if t == F64 and 'low23zero' in cls:
                    c2 = 'nan-low23zero'
                chk.violation('C07:%s:%s:%s' % (t, c2, pos), '%s.const %#x in %s position reads back as %#x (build %s)' % (t, bits, pos, got, tag),
                              dict(files, build=tag))
        # segment offsets
        wl = out[1 + len(probes)]
        hexs = wl.split(' ')[3]
        memb = bytes.fromhex(hexs)
        expect = bytearray(65536)
        for j, off in enumerate(seg_offsets['data']):
            expect[off] = 0xA0 + (j & 0x3f)
        chk.ev(len(seg_offsets['data']))
        for j, off in enumerate(seg_offsets['data']):
            chk.distinct((I32, off, 'data-offset'))
        if memb != bytes(expect):
            bad = [i for i in range(65536) if memb[i] != expect[i]][:5]
            chk.violation('C07:i32:data-offset', 'data segment offsets land at wrong addresses, first differing bytes at %s (build %s)' % (bad, tag), files)
        tl = out[2 + len(probes)].split(' ')[3]
        exp_t = ''.join('1' if i in seg_offsets['elem'] else '0' for i in range(64))
        chk.ev(len(seg_offsets['elem']))
        for off in seg_offsets['elem']:
            chk.distinct((I32, off, 'elem-offset'))
        if tl != exp_t:
            chk.violation('C07:i32:elem-offset', 'element segment offsets: table bitmap %s expected %s (build %s)' % (tl, exp_t, tag), files)
    if k == 0:
        chk.sample({'module': k, 'constants': [(t, hex(b_), c) for t, b_, c in consts[:5]], 'builds': [b_[0] for b_ in builds]})
    import shutil
    shutil.rmtree(d, ignore_errors=True)


def literal_sweep(chk, w2c2, quick, builds):
    """Full-coverage pre-filter: the real literal writer (wasmCWriteLiteral, via harness/literal_sweep.c which includes w2c2/c.c) is
    run over ALL 2^32 f32 bit patterns (thorough) or every 16th of them (quick; offset VERIF_SEED mod 16) and over large random f64
    samples; its text is evaluated with C literal semantics. Patterns flagged there are then put through the real path (translate,
    compile with gcc and clang, run), which decides."""
    d = env.subdir('c07-sweep')
    srcs = [os.path.join(env.REPO, 'w2c2', f) for f in sorted(os.listdir(os.path.join(env.REPO, 'w2c2')))
            if f.endswith('.c') and not f.endswith('_test.c') and f not in ('test.c', 'c.c', 'main.c')]
    exe = os.path.join(d, 'sweep')
    r = env.run(['gcc', '-std=gnu90', '-O2', '-w'] + env.W2C2_DEFS + ['-I', os.path.join(env.REPO, 'w2c2'), os.path.join(env.VERIF, 'harness', 'literal_sweep.c')] + srcs +
                ['-o', exe, '-lpthread', '-lm'], timeout=600)
    if r.rc != 0:
        chk.inconclusive('literal sweep harness does not build against this tree: %s' % r.err[-800:])
        return
    jobs = []
    nchunks = 64
    if quick:
        per = (1 << 32) // 16 // nchunks
        off = env.SEED % 16
        for c in range(nchunks):
            jobs.append(['32', str(off + 16 * per * c), str(per), '16', '0'])
        for c in range(16):
            jobs.append(['64', str(env.SEED * 1000003 + c), str(500000), '1', '1'])
    else:
        per = (1 << 32) // nchunks
        for c in range(nchunks):
            jobs.append(['32', str(per * c), str(per), '1', '0'])
        for c in range(64):
            jobs.append(['64', str(env.SEED * 1000003 + c), str(6000000), '1', '1'])
    # f64: additionally every exponent with structured significands (all-zero, single bits, all-ones, alternating)
    flagged = []
    total = {'32': 0, '64': 0}
    unparsed = 0
    for job, rr in env.pmap(lambda j: (j, env.run([exe] + j, timeout=3600)), jobs):
        if rr.rc != 0 or 'DONE' not in rr.out:
            chk.inconclusive('literal sweep chunk %s failed: rc %s %s' % (job, rr.rc, rr.err[-200:]))
            continue
        for l in rr.out.splitlines():
            if l.startswith('M '):
                _, w, bits, text = l.split(' ', 3)
                flagged.append((F32 if w == '32' else F64, int(bits, 16), text))
            elif l.startswith('U '):
                unparsed += 1
                chk.log('note: literal sweep could not evaluate the text %r' % l)
            elif l.startswith('DONE'):
                total[job[0]] += int(l.split('n=')[1].split(' ')[0])
    chk.ev(total['32'] + total['64'])
    chk.observe('sweep_f32_patterns', total['32'], 'set')
    chk.observe('sweep_f64_patterns', total['64'], 'set')
    chk.observe('sweep_f32_exhaustive', (not quick) and total['32'] == (1 << 32), 'set')
    chk.observe('sweep_flagged', len(flagged), 'set')
    if unparsed:
        chk.inconclusive('%d literal texts have a form the sweep cannot evaluate' % unparsed)
    if flagged:
        cs = [(t, b, 'sweep-flagged') for t, b, _ in flagged[:300]]
        before = chk.nviolations() if hasattr(chk, 'nviolations') else None
        run_module(chk, w2c2, 9000, cs, builds[:2], {'data': [0], 'elem': [0]})
        chk.log('note: literal sweep flagged %d patterns (e.g. %s emitted as %s); they were run through the real path' % (len(flagged), hex(flagged[0][1]), flagged[0][2]))


def main(chk):
    quick = chk.tier == 'quick'
    w2c2 = env.build_translator('plain')
    rnd = env.rng('c07')
    consts = classes(rnd, 400 if quick else 20000, full=not quick)
    rnd.shuffle(consts)
    per = 1500
    mods = [consts[i:i + per] for i in range(0, len(consts), per)]
    builds = [('gcc-O0', 'gcc', ['-O0']), ('gcc-O2', 'gcc', ['-O2']), ('clang-O0', 'clang', ['-O0']), ('clang-O2', 'clang', ['-O2'])]
    if not quick:
        builds.append(('gcc-O0-gnu89', 'gcc', ['-O0', '-std=gnu89']))

    def one(km):
        k, cs = km
        r2 = env.rng('c07-seg', k)
        seg = {'data': sorted(set([0, 1, 63, 64, 127, 128, 255, 256, 8191, 8192, 16383, 16384, 65535] +
                                  [r2.randrange(65536) for _ in range(40)])),
               'elem': sorted(set([0, 1, 63] + [r2.randrange(64) for _ in range(6)]))}
        run_module(chk, w2c2, k, cs, builds, seg)

    env.pmap(one, list(enumerate(mods)), jobs=max(2, env.JOBS // 3))
    literal_sweep(chk, w2c2, quick, builds)
    chk.observe('constants_total', len(consts), 'set')
    chk.observe('builds', [b[0] for b in builds], 'set')
    chk.observe('comma_decimal_locale_available', env.comma_locale_env() is not None, 'set')
    chk.assume('gcc 12 / clang 14 parse decimal and hexadecimal literals correctly (they are the compilers the property quantifies over here)')


def replay(chk, path):
    w2c2 = env.build_translator('plain')
    b = open(os.path.join(path, 'module.wasm'), 'rb').read()
    script = open(os.path.join(path, 'script.txt')).read()
    m = wasm.decode(b)
    plan = e2e.Plan(m)
    st, out, _ = e2e.build_and_run(w2c2, b, plan, script, env.subdir('replay'), cflags=['-O0'])
    print('\n'.join(out[:50]) if st == 'ok' else out)
    chk.ev(2)
    chk.distinct(1)
    chk.distinct(2)
