"""C10 The translator is total and memory-safe on valid modules and on truncated files.

Object: the UNMODIFIED translator sources (guard off), built with ASan + UBSan's memory checks, reports fatal.
  1. valid inputs (spec corpus, examples, hostile shapes) x covering set of option combinations:
     verdict = exit 0, no signal, no sanitizer report, within the watchdog;
  2. truncations: every proper prefix of small files, sampled + boundary prefixes of larger ones:
     verdict = exit 0, or non-zero exit WITH a diagnostic; never a signal, sanitizer report or hang.
UBSan arithmetic checks are not part of this property (DESIGN §1.7) and are not enabled in the deciding build.
"""
import os, shutil, glob
from vlib import env, e2e, wasm, hostile, san, gen

LEVEL = 'fault_enumeration'
RULE = ('translator process runs under ASan+UBSan(memory kinds); evaluation = one run (input, options) or (input, truncation point); '
        'distinct = distinct (input hash, option tuple) resp. (input hash, cut); exhaustive over every proper prefix for files <= 4 KB in the sample')

MEMSAN = ['-O1', '-g', '-fno-omit-frame-pointer', '-fsanitize=address',
          '-fsanitize=bounds,alignment,null,object-size,pointer-overflow,nonnull-attribute,returns-nonnull-attribute,vla-bound',
          '-fno-sanitize-recover=all']


def build_asan():
    env.BUILD_FLAGS['memsan'] = MEMSAN
    return env.build_translator('memsan', guard=False, tag='memsan')


OPTSETS = [
    [], ['-p'], ['-g'], ['-m'], ['-p', '-g', '-m'], ['-f', '1'], ['-f', '3', '-t', '1'], ['-f', '2', '-t', '4'], ['-t', '16', '-f', '1'],
    ['-g', '-t', '2', '-f', '1'], ['-g', '-t', '1', '-f', '2'], ['-d', 'gnu-ld'], ['-d', 'gnu-ld', '-p', '-f', '5'], ['-c'], ['-c', '-f', '1', '-m'],
    ['-r', 'SELF'], ['-r', 'OTHER', '-f', '2'], ['-r', 'OTHER', '-g', '-p', '-t', '3'], ['-d', 'sectcreate1'], ['-t', '1'],
]
OUTPATHS = ['out.c', 'sub/out.c', './out.c', 'sub//deep.name.c', 'noext', 'ABS']


def run_one(w2c2, d, wasm_path, opts, outpath, other):
    """One translator run in a fresh directory. Returns (rc, timeout, out, err)."""
    shutil.rmtree(d, ignore_errors=True)
    os.makedirs(os.path.join(d, 'sub'), exist_ok=True)
    o = []
    for x in opts:
        o.append(wasm_path if x == 'SELF' else other if x == 'OTHER' else x)
    if outpath == 'ABS':
        outpath = os.path.join(d, 'abs.c')
    r = env.run([w2c2] + o + [wasm_path, outpath], cwd=d, env=env.SAN_ENV, timeout=120, limit_as=None)
    return r


def judge(chk, r, what, cls, files, truncated):
    """Apply the verdict rule; returns True if a violation was recorded."""
    reports = san.parse(r.err)
    if reports:
        for key, head in reports[:1]:
            chk.violation('C10:' + key, '%s: %s' % (what, head), dict(files, stderr=r.err[-6000:]))
        return True
    if r.timeout:
        chk.violation('C10:hang:%s' % cls, '%s: no termination within the watchdog' % what, files)
        return True
    if r.rc is not None and r.rc < 0:
        chk.violation('C10:signal:%d:%s' % (-r.rc, cls), '%s: killed by signal %d; stderr: %s' % (what, -r.rc, r.err[-500:]), dict(files, stderr=r.err[-6000:]))
        return True
    if r.rc in (99, 98):
        chk.violation('C10:sanitizer-exit:%s' % cls, '%s: sanitizer exit code %d: %s' % (what, r.rc, r.err[-800:]), dict(files, stderr=r.err[-6000:]))
        return True
    if not truncated:
        if r.rc != 0:
            chk.violation('C10:exit:%s:%s' % (r.rc, cls), '%s: valid module rejected, exit %s: %s' % (what, r.rc, r.err[-500:]), dict(files, stderr=r.err[-3000:]))
            return True
    else:
        if r.rc != 0 and not r.err.strip():
            chk.violation('C10:silent-failure:%s' % cls, '%s: non-zero exit %s without a diagnostic' % (what, r.rc), files)
            return True
    return False


def main(chk):
    quick = chk.tier == 'quick'
    w2c2 = build_asan()
    rnd = env.rng('c10')
    root = env.subdir('c10')
    indir = os.path.join(root, 'in')
    os.makedirs(indir, exist_ok=True)
    inputs = []  # (cls, path, bytes)
    corpus = sorted(glob.glob(os.path.join(env.VERIF, 'corpus', 'spec', '*.wasm')))
    ex = sorted(glob.glob(os.path.join(env.VERIF, 'corpus', 'examples', '*.wasm')))
    if quick:
        corpus = rnd.sample(corpus, 250)
    for p in corpus + ex:
        b = open(p, 'rb').read()
        dst = os.path.join(indir, os.path.basename(p))
        shutil.copy(p, dst)
        inputs.append(('corpus:' + os.path.basename(p).split('.')[0] if p in corpus else 'example:' + os.path.basename(p), dst, b))
    for i, (cls, m) in enumerate(hostile.shapes(rnd, chk.tier)):
        b = m.encode()
        dst = os.path.join(indir, 'h%03d.wasm' % i)
        open(dst, 'wb').write(b)
        inputs.append(('hostile:' + cls, dst, b))
    # the module identifier used throughout the generated C is derived from the INPUT FILE NAME: the same small modules (one with calls,
    # call_indirect and imports; one tiny) under file names of many lengths and shapes
    cg = gen.build_program_module(env.rng('c10-longname'), gen.Profile(w_call=3.0), n_funcs=6)
    tiny = hostile.many_funcs(3, 'some')
    for mi, mb_ in enumerate((cg.mod.encode(), tiny.encode())):
        for stem in ['M' * 63, 'M' * 64, 'N' * 65, 'abc' * 33, 'Q' * 128, 'z9' * 100, 'L' * 250, 'a.b-c d' * 12, '_' * 70, 'X' * 80, '\u00e9' * 60, '0' + 'd' * 90]:
            dst = os.path.join(indir, '%s%d.wasm' % (stem, mi))
            if len(os.path.basename(dst).encode()) > 255:
                continue
            open(dst, 'wb').write(mb_)
            inputs.append(('hostile:longfilename-%d' % len(stem), dst, mb_))
    other = os.path.join(indir, 'coremark.wasm')
    chk.observe('inputs', len(inputs), 'set')

    # ---- 1. valid inputs x options
    jobs = []
    for idx, (cls, path, b) in enumerate(inputs):
        if cls.startswith('hostile') or cls.startswith('example'):
            osets = OPTSETS if (quick and len(b) < 300000) or not quick else OPTSETS[:6]
        else:
            osets = [OPTSETS[0]] + rnd.sample(OPTSETS[1:], 3 if quick else 8)
        for oi, opts in enumerate(osets):
            outp = OUTPATHS[(idx + oi) % len(OUTPATHS)]
            jobs.append((idx, oi, opts, outp))

    def do(job):
        idx, oi, opts, outp = job
        cls, path, b = inputs[idx]
        d = os.path.join(root, 'r%d_%d' % (idx, oi))
        r = run_one(w2c2, d, path, opts, outp, other)
        shutil.rmtree(d, ignore_errors=True)
        return job, r

    nviol = 0
    for (idx, oi, opts, outp), r in env.pmap(do, jobs):
        cls, path, b = inputs[idx]
        chk.ev()
        chk.distinct((env.sha(b)[:12], tuple(opts), outp))
        chk.observe('valid_runs')
        chk.observe('class_' + cls.split(':')[0])
        for o in opts:
            if o.startswith('-'):
                chk.observe('opt_' + o)
        what = 'input %s (%s, %d bytes) options %s output %s' % (os.path.basename(path), cls, len(b), ' '.join(opts), outp)
        files = {'input.wasm': b, 'cmd.txt': 'w2c2 %s input.wasm %s' % (' '.join(opts), outp)}
        if judge(chk, r, what, cls.split(':')[0] + ':' + cls.split(':')[1].split('-')[0], files, truncated=False):
            nviol += 1
    chk.sample({'kind': 'valid', 'input': inputs[0][0], 'options': OPTSETS[4], 'outpath': OUTPATHS[1]})

    # ---- 2. truncations
    small = [(c, p, b) for c, p, b in inputs if len(b) <= 4096]
    large = [(c, p, b) for c, p, b in inputs if len(b) > 4096]
    nsmall = 60 if quick else len(small)
    rs = env.rng('c10-trunc')
    small_sel = rs.sample(small, min(nsmall, len(small)))
    # the module that contains every kind of construct is always enumerated prefix by prefix
    small_sel += [x for x in small if x[0] == 'hostile:all-constructs' and x not in small_sel]
    tjobs = []
    exhaustive_files = []
    for c, p, b in small_sel:
        exhaustive_files.append(os.path.basename(p))
        for k in range(1, len(b)):
            tjobs.append((c, p, b, k))
    for c, p, b in (large[:6] if quick else large):
        cuts = set(range(1, min(len(b), 1024 if quick else 4096)))
        try:
            m = wasm.decode(b, keep_raw=True)
            for sid, st, en in m.section_bounds:
                for dlt in range(-3, 4):
                    cuts.add(st + dlt)
                    cuts.add(en + dlt)
        except Exception:
            pass
        for _ in range(100 if quick else 2000):
            cuts.add(rs.randrange(1, len(b)))
        for k in sorted(x for x in cuts if 0 < x < len(b)):
            tjobs.append((c, p, b, k))
    tdir = os.path.join(root, 'trunc')
    os.makedirs(tdir, exist_ok=True)

    def dot(i_job):
        i, (c, p, b, k) = i_job
        d = os.path.join(tdir, 't%d' % i)
        os.makedirs(d, exist_ok=True)
        tp = os.path.join(d, 'trunc.wasm')
        with open(tp, 'wb') as f:
            f.write(b[:k])
        opts = [[], ['-g'], ['-f', '1', '-t', '2'], ['-p', '-m']][i % 4]
        r = env.run([w2c2] + opts + [tp, 'out.c'], cwd=d, env=env.SAN_ENV, timeout=60)
        shutil.rmtree(d, ignore_errors=True)
        return (c, p, b, k, opts), r

    okc = failc = 0
    for (c, p, b, k, opts), r in env.pmap(dot, list(enumerate(tjobs))):
        chk.ev()
        chk.distinct((env.sha(b)[:12], k))
        if r.rc == 0:
            okc += 1
        else:
            failc += 1
        what = 'prefix of length %d of %s (%s, %d bytes) options %s' % (k, os.path.basename(p), c, len(b), ' '.join(opts))
        files = {'input.wasm': b[:k], 'cmd.txt': 'w2c2 %s input.wasm out.c' % ' '.join(opts), 'full.wasm': b}
        judge(chk, r, what, 'truncated:' + c.split(':')[0], files, truncated=True)
    chk.observe('truncation_runs', len(tjobs), 'set')
    chk.observe('truncations_accepted', okc, 'set')
    chk.observe('truncations_rejected_with_diagnostic', failc, 'set')
    chk.observe('files_with_every_prefix_enumerated', len(exhaustive_files), 'set')
    chk.exhaustive = False
    chk.sample({'kind': 'truncation', 'files_exhaustive_prefixes': exhaustive_files[:5], 'prefix_example': tjobs[0][3] if tjobs else None})

    # ---- 2b. MemorySanitizer build of the translator (clang): reads of uninitialised memory, which ASan cannot see, on every valid
    # input under two option sets and on a sample of the truncations
    try:
        msan = env.build_translator('msan', cc='clang', tag='msan')
    except env.HarnessError as ex:
        msan = None
        chk.inconclusive('MemorySanitizer build of the translator failed: %s' % str(ex)[-300:])
    if msan:
        mjobs = []
        for idx, (cls, path, b) in enumerate(inputs):
            if len(b) > 1500000:
                continue
            for oi in (0, 1 + (idx % (len(OPTSETS) - 1))):
                mjobs.append(('valid', idx, oi, None))
        tsel = rs.sample(tjobs, min(len(tjobs), 1500 if quick else 20000))
        for ti, tj in enumerate(tsel):
            mjobs.append(('trunc', ti, ti % 4, tj))

        def dom(job):
            kind, idx, oi, tj = job
            d = os.path.join(root, 'ms%s%d_%d' % (kind[0], idx, oi))
            if kind == 'valid':
                cls, path, b = inputs[idx]
                r = run_one(msan, d, path, OPTSETS[oi], OUTPATHS[(idx + oi) % len(OUTPATHS)], other)
            else:
                c, p, b, k = tj
                os.makedirs(d, exist_ok=True)
                tp = os.path.join(d, 'trunc.wasm')
                with open(tp, 'wb') as f:
                    f.write(b[:k])
                r = env.run([msan] + [[], ['-g'], ['-f', '1', '-t', '2'], ['-p', '-m']][oi] + [tp, 'out.c'], cwd=d, env=env.SAN_ENV, timeout=120)
            shutil.rmtree(d, ignore_errors=True)
            return job, r

        for (kind, idx, oi, tj), r in env.pmap(dom, mjobs):
            chk.ev()
            chk.observe('msan_runs_' + kind)
            reports = [x for x in san.parse(r.err) if x[0].startswith('msan')]
            if kind == 'valid':
                cls, path, b = inputs[idx]
                chk.distinct(('msan', env.sha(b)[:12], oi))
                what = 'input %s (%s) options %s' % (os.path.basename(path), cls, ' '.join(OPTSETS[oi]))
                files = {'input.wasm': b, 'cmd.txt': 'w2c2(msan) %s input.wasm out.c' % ' '.join(OPTSETS[oi]), 'stderr': r.err[-6000:]}
            else:
                c, p, b, k = tj
                chk.distinct(('msan', env.sha(b)[:12], k))
                what = 'prefix of length %d of %s' % (k, os.path.basename(p))
                files = {'input.wasm': b[:k], 'full.wasm': b, 'stderr': r.err[-6000:]}
            if reports:
                chk.violation('C10:' + reports[0][0], '%s: %s' % (what, reports[0][1]), files)
            elif r.rc is not None and r.rc < 0:
                chk.violation('C10:signal:%d:msan-build' % -r.rc, '%s: MemorySanitizer build killed by signal %d: %s' % (what, -r.rc, r.err[-300:]), files)

    # ---- 3. thorough: valgrind memcheck on a sample (uninitialised reads)
    if not quick:
        plain = env.build_translator('plain')
        vs = rs.sample(inputs, min(120, len(inputs)))

        def dov(i_item):
            i, (c, p, b) = i_item
            d = os.path.join(root, 'v%d' % i)
            os.makedirs(d, exist_ok=True)
            r = env.run(['valgrind', '-q', '--error-exitcode=77', '--track-origins=no', plain] + OPTSETS[i % 12][:] + [p, 'out.c'] if 'SELF' not in OPTSETS[i % 12] and 'OTHER' not in OPTSETS[i % 12]
                        else ['valgrind', '-q', '--error-exitcode=77', plain, p, 'out.c'], cwd=d, timeout=600)
            shutil.rmtree(d, ignore_errors=True)
            return (c, p, b), r

        for (c, p, b), r in env.pmap(dov, list(enumerate(vs))):
            chk.ev()
            chk.observe('valgrind_runs')
            if r.rc == 77:
                first = [l for l in r.err.splitlines() if '==' in l][:12]
                fn = '?'
                for l in first:
                    if ' by ' in l or ' at ' in l:
                        if '(' in l and ('.c:' in l):
                            fn = l.split(': ')[1].split(' ')[0] if ': ' in l else '?'
                            break
                chk.violation('C10:memcheck:%s' % fn, 'valgrind reports an error on %s: %s' % (os.path.basename(p), ' | '.join(first)[:600]),
                              {'input.wasm': b, 'stderr': r.err[-5000:]})
    chk.assume('ASan red zones: non-adjacent / intra-object overflows are not visible; UBSan arithmetic kinds deliberately off (not part of C10)')
    chk.assume('corpus modules are valid per the spec test-suite; hostile shapes are validated by V8 in development and stay inside V8 implementation limits')


def replay(chk, path):
    w2c2 = build_asan()
    d = env.subdir('replay')
    shutil.copy(os.path.join(path, 'input.wasm'), os.path.join(d, 'input.wasm'))
    os.makedirs(os.path.join(d, 'sub'), exist_ok=True)
    cmd = open(os.path.join(path, 'cmd.txt')).read().split()
    args = [os.path.join(d, 'input.wasm') if a in ('SELF', 'OTHER') else a for a in cmd[1:]]
    r = env.run([w2c2] + args, cwd=d, env=env.SAN_ENV, timeout=120)
    print('rc', r.rc)
    print(r.err[-4000:])
    chk.ev(2)
    chk.distinct(1)
    chk.distinct(2)
    if san.parse(r.err) or (r.rc or 0) < 0:
        chk.violation('C10:replay', r.err[-500:])
