"""C16 Atomic memory instructions have specified results and are atomic across threads.

a. Sequential results: every atomic load/store/RMW/cmpxchg flavour over boundary operand sets and naturally aligned
   addresses (incl. page ends), compared with V8 on the same binary: returned (zero-extended) old value and the memory
   window afterwards (wrapped new value, neighbours untouched).
b. Atomicity: harness/atomics_stress.c calls the translated module's exported functions from 2..16 pthreads on child
   instances sharing one memory; unique-value scenarios (add/sub chains, xchg permutations, cmpxchg chains, owned bits,
   adjacent narrow lanes) are decided exactly; two-thread store-buffering and message-passing litmus rounds (spin-barrier aligned) check
   that loads and stores of different locations fit one total order; built plain -O2, ASan and TSan (TSan must stay silent on the generated code).
"""
import os, shutil
from vlib import env, e2e, wasm, gen, diff, san
from vlib.wasm import *

LEVEL = 'exploration'
RULE = ('(a) (flavour, address, operands) evaluations compared with V8, distinct = distinct tuples; (b) threaded scenario runs, evaluation = '
        'one atomic operation executed under contention, distinct = distinct (scenario, flavour, thread count, build)')

FAMILIES = [('i32', 8), ('i32', 16), ('i32', 32), ('i64', 8), ('i64', 16), ('i64', 32), ('i64', 64)]


def opname(t, width, op):
    full = (t == 'i32' and width == 32) or (t == 'i64' and width == 64)
    if op in ('load', 'store'):
        if full:
            return '%s.atomic.%s' % (t, op)
        return '%s.atomic.%s%d%s' % (t, op, width, '_u' if op == 'load' else '')
    if full:
        return '%s.atomic.rmw.%s' % (t, op)
    return '%s.atomic.rmw%d.%s_u' % (t, width, op)


def build_module(shared, imported=False):
    m = Module()
    if imported:
        m.imports.append(('env', 'shared_mem', 'memory', (1, 1, True)))
    else:
        m.mems.append((1, 48, True) if shared else (1, 1, False))   # the shared memory has room to grow: another thread grows it during the stress
    m.exports.append(('mem', 'memory', 0))
    names = []
    for t, w in FAMILIES:
        al = {8: 0, 16: 1, 32: 2, 64: 3}[w]
        for op in ('load', 'store', 'add', 'sub', 'and', 'or', 'xor', 'xchg', 'cmpxchg'):
            n = opname(t, w, op)
            ex = n.replace('.', '_')
            if op == 'load':
                m.add_func([I32], [t], [], [('local.get', 0), (n, al, 0)], export=ex)
            elif op == 'store':
                m.add_func([I32, t], [], [], [('local.get', 0), ('local.get', 1), (n, al, 0)], export=ex)
            elif op == 'cmpxchg':
                m.add_func([I32, t, t], [t], [], [('local.get', 0), ('local.get', 1), ('local.get', 2), (n, al, 0)], export=ex)
            else:
                m.add_func([I32, t], [t], [], [('local.get', 0), ('local.get', 1), (n, al, 0)], export=ex)
            names.append((t, w, op, n, ex))
        # a variant with a static offset, and fence
    # the same flavours in context: operands at stack heights 2.. above an i64 and an f64 slot, a static offset, result consumed by an
    # enclosing expression (exercises the translator's operand-slot selection and offset emission for every atomic opcode)
    ctx = []
    CTX_OFF = 0x1010
    for t, w in FAMILIES:
        al = {8: 0, 16: 1, 32: 2, 64: 3}[w]
        ext = [('i64.extend_i32_u',)] if t == 'i32' else []
        pre = [('i64.const', 0x5a5a00000000a5a5), ('f64.const', 0x4000000000000000)]
        post = ext + [('local.set', None), ('drop',), ('local.get', None), ('i64.xor',)]
        for op in ('load', 'store', 'add', 'sub', 'and', 'or', 'xor', 'xchg', 'cmpxchg'):
            n = opname(t, w, op)
            ex = 'ctx_' + n.replace('.', '_')
            if op == 'load':
                ps, core = [I32], [('local.get', 0), (n, al, CTX_OFF)]
            elif op == 'store':
                ps, core = [I32, t], [('local.get', 0), ('local.get', 1), (n, al, CTX_OFF), ('i64.const', 77)]
            elif op == 'cmpxchg':
                ps, core = [I32, t, t], [('local.get', 0), ('local.get', 1), ('local.get', 2), (n, al, CTX_OFF)]
            else:
                ps, core = [I32, t], [('local.get', 0), ('local.get', 1), (n, al, CTX_OFF)]
            tmp = len(ps)
            body = pre + core + ([] if op == 'store' else ext) + [('local.set', tmp), ('drop',), ('local.get', tmp), ('i64.xor',)]
            m.add_func(ps, [I64], [(1, I64)], body, export=ex)
            ctx.append((t, w, op, n, ex))
            if op != 'store':
                # the result is consumed directly by a comparison / shift / store-value position: (result == K) + (result >> 3) etc.
                for sfx, tail in (('shr', [('%s.const' % t, 3), ('%s.shr_u' % t,)] + ([] if t == 'i64' else [('i64.extend_i32_u',)])),
                                  ('eqz', [('%s.eqz' % t,), ('i64.extend_i32_u',)]),
                                  ('cvt', [('f64.convert_%s_u' % t,), ('i64.reinterpret_f64',)])):
                    ex2 = '%s_%s' % (sfx, n.replace('.', '_'))
                    m.add_func(ps, [I64], [], core + tail, export=ex2)
                    ctx.append((t, w, op, n, ex2))
    m.ctx_names = ctx
    # "split" alignment: the static offset alone is NOT a multiple of the access width and neither is the address operand, but their sum
    # is naturally aligned (what the instruction requires is the alignment of the effective address)
    split = []
    for t, w in FAMILIES:
        if w == 8:
            continue
        al = {16: 1, 32: 2, 64: 3}[w]
        so = w // 16
        for op in ('load', 'store', 'add', 'xchg', 'cmpxchg', 'sub', 'and', 'or', 'xor'):
            n = opname(t, w, op)
            ex = 'so_' + n.replace('.', '_')
            if op == 'load':
                m.add_func([I32], [t], [], [('local.get', 0), (n, al, so)], export=ex)
            elif op == 'store':
                m.add_func([I32, t], [], [], [('local.get', 0), ('local.get', 1), (n, al, so)], export=ex)
            elif op == 'cmpxchg':
                m.add_func([I32, t, t], [t], [], [('local.get', 0), ('local.get', 1), ('local.get', 2), (n, al, so)], export=ex)
            else:
                m.add_func([I32, t], [t], [], [('local.get', 0), ('local.get', 1), (n, al, so)], export=ex)
            split.append((t, w, op, n, ex, so))
    m.split_names = split
    m.add_func([], [], [], [('atomic.fence',)], export='fence')
    m.add_func([I32, I32], [I32], [], [('local.get', 0), ('local.get', 1), ('i32.atomic.rmw.add', 2, 16)], export='add_off16')
    m.add_func([I32], [I32], [], [('local.get', 0), ('memory.grow',)], export='grow')
    return m, names


def atomtab(names):
    o = ['struct Flavour { const char* name; int width; U64 (*load)(void*, U32); void (*store)(void*, U32, U64);',
         '  U64 (*add)(void*, U32, U64); U64 (*sub)(void*, U32, U64); U64 (*and_)(void*, U32, U64); U64 (*or_)(void*, U32, U64);',
         '  U64 (*xor_)(void*, U32, U64); U64 (*xchg)(void*, U32, U64); U64 (*cmpxchg)(void*, U32, U64, U64); };']
    for t, w, op, n, ex in names:
        ct = 'U32' if t == 'i32' else 'U64'
        sym = 'atom_' + ex
        if op == 'load':
            o.append('static U64 W_%s(void* i, U32 a) { return (U64)%s((atomInstance*)i, a); }' % (ex, sym))
        elif op == 'store':
            o.append('static void W_%s(void* i, U32 a, U64 v) { %s((atomInstance*)i, a, (%s)v); }' % (ex, sym, ct))
        elif op == 'cmpxchg':
            o.append('static U64 W_%s(void* i, U32 a, U64 e, U64 r) { return (U64)%s((atomInstance*)i, a, (%s)e, (%s)r); }' % (ex, sym, ct, ct))
        else:
            o.append('static U64 W_%s(void* i, U32 a, U64 v) { return (U64)%s((atomInstance*)i, a, (%s)v); }' % (ex, sym, ct))
    o.append('static const struct Flavour flavours[] = {')
    for t, w in FAMILIES:
        f = {op: 'W_' + opname(t, w, op).replace('.', '_') for op in ('load', 'store', 'add', 'sub', 'and', 'or', 'xor', 'xchg', 'cmpxchg')}
        o.append('  {"%s/%d", %d, %s, %s, %s, %s, %s, %s, %s, %s, %s},' % (t, w, w, f['load'], f['store'], f['add'], f['sub'], f['and'], f['or'], f['xor'], f['xchg'], f['cmpxchg']))
    o.append('};\n#define NFLAVOURS %d' % len(FAMILIES))
    return '\n'.join(o) + '\n'


def sequential(chk, w2c2, quick):
    m, names = build_module(False)
    b = m.encode()
    plan = e2e.Plan(m)
    rnd = env.rng('c16-seq')
    lines = []
    sets = {}
    sid = 0

    def defset(vals):
        nonlocal sid
        lines.append('S %d %d %s' % (sid, len(vals), ' '.join(hex(v) for v in vals)))
        sid += 1
        return sid - 1

    v32 = defset(list(dict.fromkeys([0, 1, 0x7f, 0x80, 0xff, 0x100, 0x7fff, 0x8000, 0xffff, 0x10000, 0x7fffffff, 0x80000000, 0xffffffff, 0x12345678, 0xfedcba98] + [rnd.getrandbits(32) for _ in range(4)])))
    v64 = defset(list(dict.fromkeys([0, 1, 0xff, 0x100, 0xffff, 0x10000, 0xffffffff, 0x100000000, 0x7fffffffffffffff, 0x8000000000000000, 0xffffffffffffffff, 0x123456789abcdef0] + [rnd.getrandbits(64) for _ in range(4)])))
    lines.append('I 0')
    # fill the windows with a known non-trivial pattern
    pat = bytes((i * 37 + 11) & 0xff for i in range(256))
    lines.append('P 0 0 0 %s' % pat.hex())
    lines.append('P 0 0 %d %s' % (65536 - 256, pat.hex()))
    steps = {}
    for t, w, op, n, ex in names:
        by = w // 8
        addrs = [0, by, 8, 16 + by, 128, 65536 - by, 65536 - 8, 65536 - 16]
        addrs = sorted(set(a // by * by for a in addrs))
        aset = defset(addrs)
        vs = v32 if t == 'i32' else v64
        fk = plan.fk(ex)
        if op == 'load':
            lines.append('x 0 %d %d' % (fk, aset))
        elif op == 'cmpxchg':
            # expected operand: mix of arbitrary values (mismatch) and a preceding load of the same cell (match) - the
            # value sets contain the patterns written by earlier stores/xchg, so matches occur too
            lines.append('x 0 %d %d %d %d' % (fk, aset, vs, vs))
            # guaranteed matches: store v then cmpxchg(v -> v2)
            sfk = plan.fk(opname(t, w, 'store').replace('.', '_'))
            for a in addrs[:3]:
                for v in (0x11, 0xfff1, 0xfffffff1, 0xfffffffffffffff1):
                    vv = v & ((1 << (32 if t == 'i32' else 64)) - 1)
                    lines.append('c 0 %d %s %s' % (sfk, hex(a), hex(vv)))
                    lines.append('c 0 %d %s %s %s' % (fk, hex(a), hex(vv & ((1 << w) - 1)), hex(0xabcdef0123456789 & ((1 << (32 if t == 'i32' else 64)) - 1))))
                    lines.append('c 0 %d %s %s %s' % (fk, hex(a), hex(vv), hex(0x55)))
        else:
            lines.append('x 0 %d %d %d' % (fk, aset, vs))
        lines.append('w 0 0 0 256')
        lines.append('w 0 0 %d 256' % (65536 - 256))
    for t, w, op, n, ex in m.ctx_names:
        by = w // 8
        aset = defset([0, by, 128 + 8 - by, 256 - by])
        vs = v32 if t == 'i32' else v64
        fk = plan.fk(ex)
        if op == 'load':
            lines.append('x 0 %d %d' % (fk, aset))
        elif op == 'cmpxchg':
            lines.append('x 0 %d %d %d %d' % (fk, aset, vs, vs))
            lfk = plan.fk('ctx_' + opname(t, w, 'load').replace('.', '_'))
            sfk = plan.fk('ctx_' + opname(t, w, 'store').replace('.', '_'))
            for v in (0x11, 0xfff1, 0xfffffff1, 0xfffffffffffffff1):
                vv = v & ((1 << (32 if t == 'i32' else 64)) - 1)
                lines.append('c 0 %d 0x0 %s' % (sfk, hex(vv)))
                lines.append('c 0 %d 0x0 %s %s' % (fk, hex(vv & ((1 << w) - 1)), hex(0xabcdef0123456789 & ((1 << (32 if t == 'i32' else 64)) - 1))))
        else:
            lines.append('x 0 %d %d %d' % (fk, aset, vs))
        lines.append('w 0 0 %d 512' % 0x1000)
    for t, w, op, n, ex, so in m.split_names:
        by = w // 8
        aset = defset([by - so, 128 + by - so, 0x2000 + 3 * by - so, 65536 - by - so])
        vs = v32 if t == 'i32' else v64
        fk = plan.fk(ex)
        if op == 'load':
            lines.append('x 0 %d %d' % (fk, aset))
        elif op == 'cmpxchg':
            lines.append('x 0 %d %d %d %d' % (fk, aset, vs, vs))
        else:
            lines.append('x 0 %d %d %d' % (fk, aset, vs))
        lines.append('w 0 0 0 256')
    lines.append('c 0 %d 0x10 0x5' % plan.fk('add_off16'))
    lines.append('c 0 %d' % plan.fk('fence'))
    lines.append('m 0 0')
    script = '\n'.join(lines) + '\n'
    d = env.subdir('c16-seq')
    st, ref, _ = e2e.run_ref(b, plan, script, d)
    if st != 'ok':
        chk.inconclusive('reference failed for the sequential atomics module: %s %s' % (st, str(ref)[:300]))
        return
    builds = [('gcc-O1', 'gcc', ['-O1']), ('gcc-O1-padded-encoding', 'gcc', ['-O1'])] + ([] if quick else [('clang-O2', 'clang', ['-O2']), ('gcc-O0', 'gcc', ['-O0'])])
    bpad = m.encode(wasm.rot_enc(3, env.rng('c16-pad')))   # same module, redundantly padded LEB128 fields (incl. the 0xFE sub-opcodes)
    okp, msgp = e2e.validate_v8(bpad, d, 'padded')
    if not okp:
        chk.inconclusive('V8 rejects the padded encoding of the atomics module: %s' % msgp)
    for tag, cc, fl in builds:
        st2, out, r = e2e.build_and_run(w2c2, bpad if 'padded' in tag else b, plan, script, os.path.join(d, tag), cc=cc, cflags=fl, cdefs=['-DWASM_THREADS_PTHREADS'], link=['-lpthread'],
                                        )
        files = {'module.wasm': b, 'script.txt': script}
        if st2 != 'ok':
            chk.violation('C16:sequential:%s' % st2, 'sequential atomics module failed at %s (%s): %s' % (st2, tag, str(out)[:1200]), files)
            continue
        chk.ev(len(out))
        for l in ref:
            p = diff.parse_call(l)
            if p:
                chk.distinct((p[1],) + tuple(p[2]))
        for step, kind, ra, rb, i in diff.compare(ref, out, {}):
            p = diff.parse_call(ref[i])
            name = plan.exports[p[1]]['name'] if p else 'memory-window'
            if not p:
                # attribute a window difference to the sweep before it
                j = i
                while j > 0 and not diff.parse_call(ref[j]):
                    j -= 1
                pj = diff.parse_call(ref[j])
                name = plan.exports[pj[1]]['name'] + ':memory' if pj else name
            chk.violation('C16:sequential:%s' % name, 'build %s line %d: reference "%s" vs compiled "%s"' % (tag, i, ra[:120], rb[:120]), files)
            break
    chk.observe('sequential_flavours', len(names), 'set')
    chk.observe('sequential_flavours_in_context', len(m.ctx_names), 'set')
    chk.observe('sequential_flavours_split_alignment', len(m.split_names), 'set')
    chk.sample({'part': 'a', 'lines': ref[1:4]})


def stress(chk, w2c2, quick, imported=False):
    m, names = build_module(True, imported=imported)
    b = m.encode()
    d = env.subdir('c16-stress' + ('-imported' if imported else ''))
    t = e2e.translate(w2c2, b, d, 'atom')
    if t.rc != 0:
        chk.violation('C16:stress:translate', 'atomics module rejected: %s' % t.err[-400:], {'module.wasm': b})
        return
    open(os.path.join(d, 'atomtab.h'), 'w').write(atomtab(names))
    srcs = [os.path.join(d, f) for f in t.files if f.endswith('.c')] + [os.path.join(env.VERIF, 'harness', 'atomics_stress.c')]
    builds = [('plain-O2', ['-O2', '-DNDEBUG']), ('tsan', ['-O1', '-g', '-fsanitize=thread']), ('asan', ['-O1', '-g', '-fsanitize=address,undefined', '-fno-sanitize-recover=all'])]
    if not quick:
        builds.append(('clang-O2', ['-O2']))
    exes = {}
    for tag, fl in builds:
        exe = os.path.join(d, 'stress-' + tag)
        cc = 'clang' if tag.startswith('clang') else 'gcc'
        if imported and tag == 'asan':
            continue
        r = env.run([cc] + fl + ['-w', '-DWASM_THREADS_PTHREADS'] + (['-DIMPORTED_MEM=1'] if imported else []) + ['-I', e2e.base_include(), '-I', d] + srcs + ['-o', exe, '-lpthread', '-lm'], timeout=600)
        if r.rc != 0:
            chk.violation('C16:stress:compile:%s' % tag, 'stress harness does not build (%s): %s' % (tag, r.err[-1500:]), {'module.wasm': b})
            continue
        exes[tag] = exe
    runs = []
    for tag in exes:
        n = (6 if tag == 'plain-O2' else 2) if quick else (60 if tag in ('plain-O2', 'clang-O2') else 12)
        if imported:
            n = max(1, n // 3)
        for i in range(n):
            runs.append((tag, i))

    def one(job):
        tag, i = job
        rounds = 3 if tag in ('plain-O2', 'clang-O2') else 1
        return job, env.run([exes[tag], str(env.SEED * 1000 + i + (500 if imported else 0)), str(rounds), '60' if tag in ('plain-O2', 'clang-O2') else '4'], env=dict(env.SAN_ENV, TSAN_OPTIONS='halt_on_error=0:exitcode=0'), timeout=900)

    total_ops = 0
    for (tag, i), r in env.pmap(one, runs, jobs=max(2, env.JOBS // 4)):
        files = {'module.wasm': b, 'cmd.txt': 'atomics_stress[%s] %d' % (tag, env.SEED * 1000 + i), 'stdout.txt': r.out[-6000:], 'stderr.txt': r.err[-8000:]}
        tr = san.parse_tsan(r.err, env.REPO)
        for rp in tr[:3]:
            chk.violation('C16:' + rp['key'], 'ThreadSanitizer on generated atomics (%s): %s' % (tag, rp['text'][:500]), files)
        reps = [x for x in san.parse(r.err) if not x[0].startswith('tsan')]
        if reps:
            chk.violation('C16:stress:' + reps[0][0], 'sanitizer report in stress harness (%s): %s' % (tag, reps[0][1]), files)
        if r.timeout:
            chk.inconclusive('stress harness %s run %d hit the watchdog' % (tag, i))
            continue
        summ = [l for l in r.out.splitlines() if l.startswith('SUMMARY')]
        for l in r.out.splitlines():
            if l.startswith('VIOL'):
                toks = l.split()
                kind_ = 'total-order' if toks[1].startswith('litmus') else 'lost-update'
                chk.violation('C16:%s:%s:%s' % (kind_, toks[1], toks[4]), 'build %s: %s' % (tag, l), files)
            elif l.startswith('OK'):
                toks = l.split()
                chk.distinct((toks[1], toks[4], toks[2], tag))
                chk.observe('scenario_' + toks[1])
        if not summ:
            if not reps and not tr:
                chk.violation('C16:stress:crash:%s' % tag, 'stress harness died: rc %s %s' % (r.rc, r.err[-300:]), files)
            continue
        ops = int(summ[0].split('ops=')[1].split(' ')[0])
        total_ops += ops
        chk.ev(ops)
        chk.observe('contended_ops_' + tag, ops)
    chk.observe('contended_ops_total', total_ops, 'set')
    chk.observe('memory_' + ('imported' if imported else 'defined') + '_contended_ops', total_ops, 'set')
    if total_ops < ((2 * 10**6 if quick else 4 * 10**7) // (4 if imported else 1)):
        chk.inconclusive('only %d contended operations executed' % total_ops)
    chk.sample({'part': 'b', 'scenarios': ['add1', 'sub1', 'xchg', 'cas', 'bits', 'lanes', 'lock', 'litmus-sb', 'litmus-mp'], 'threads': [2, 4, 8, 16]})


def main(chk):
    quick = chk.tier == 'quick'
    w2c2 = env.build_translator('plain')
    sequential(chk, w2c2, quick)
    stress(chk, w2c2, quick)
    stress(chk, w2c2, quick, imported=True)   # the shared memory is IMPORTED (handed out by the embedder's resolver)
    chk.assume('V8 is the reference for sequential results; interleavings are those produced by 2..16 threads on 16 cores (no delay injection inside single atomic instructions)')


from checks.c01 import replay
