"""C06 Instantiation builds the specified initial state, once, per instance.

Shape generator over {memory: none/defined/imported} x {table: none/defined/imported} x {globals: defined imm/mut of all
types, imported, initialised by const or global.get of an import} x {0..6 data segments: active (overlapping, offsets
const or imported global) and passive} x {0..4 element segments} x {start: none / observes and mutates state, calls host}.
Observed right after Instantiate: memory image, every global (getters), every table slot (bitmap + probe), start trace.
Then a script interleaves calls on two instances (imported objects are shared between them, as in V8).
The driver is generated from an independent implementation of the symbol scheme, so a link failure is a violation.
"""
import os, shutil
from vlib import env, e2e, gen, wasm, diff, progs
from vlib.wasm import *

LEVEL = 'exploration'
RULE = ('generated module shapes; evaluation = one observation line (post-instantiation dump or interleaved call on instance A/B) '
        'compared with V8; distinct = distinct (shape signature incl. segment/global counts, observation kind, instance)')

TYPES = [I32, I64, F32, F64]
NAMES = ['get', 'a_b', 'a__b', 'Xy', 'x.y', 'k-1', 'with space', 'q$', 'UPPER', 'z9', '_lead', 'trail_', 'a___b', 'p:q', 'm/n', 'q"uote', 'back\\slash', 'new\nline', '??/', '%s%n',
         'm\u00e9moire', '\u8a08\u6570', '\u0080x', 'z\U0010ffff', 'na\u00efve_\u00e9__\u00fc', '\u07ff', 'X\ufffdX']


def nonnan(rnd, t):
    if t == I32:
        return rnd.choice(gen.B32)
    if t == I64:
        return rnd.choice(gen.B64)
    if t == F32:
        return f32_bits(rnd.choice([0.0, -0.0, 1.5, -2.25, 1e10, 3.0e-39, float('inf')]))
    return f64_bits(rnd.choice([0.0, -0.0, 1.5, -2.25, 1e100, 5e-324, float('-inf')]))


def build(rnd, k):
    m = Module()
    # 'shared': the module DEFINES a shared memory (threads feature); a child created by common.newChild then shares the parent's
    # memory, has the active segments applied again, and runs the start function on the child (reference: see harness/ref.cjs child_mem)
    memk = ['none', 'defined', 'imported', 'shared', 'defined', 'imported'][k % 6]
    tblk = ['none', 'defined', 'imported'][(k // 6) % 3]
    has_start = (k // 18) % 2 == 1 or (memk == 'shared' and k % 4 != 3)
    inits = {}
    # imports first: host func, memory, table, globals
    host = m.import_func('env', 'note', [I32, I64], [])
    # a second host function without parameters or results: in some shapes it IS the start function (an import may be the start)
    boot = m.import_func('env', 'boot', [], [])
    start_is_import = has_start and k % 5 == 2
    # names of imported memories/tables/globals are passed to the embedder's resolver verbatim (they are strings, not C
    # identifiers): use spellings that the identifier mangling would change (double underscores, dots, 'X', UTF-8)
    imod = lambda: rnd.choice(['env', 'env', 'GOT.mem', 'a__b', 'X', 'h\u00f4te', 'wasi:io/x', '%100', '%s'])
    # (names are data: conversion specifications, quotes and backslashes in them must reach the resolver verbatim)
    deco = lambda base: rnd.choice(['%s', '__%s', '%s.x', 'X%s', '%s__base', '%s-1', '\u8a08%s', '%s X2E', '_%s_', '%s%%d', '%%s%s%%n', '%s%%', '%s\\n', '%s"q']) % base
    if memk == 'imported':
        m.imports.append((imod(), deco('mem'), 'memory', (rnd.randint(1, 2), rnd.choice([None, 4]), False)))
    if tblk == 'imported':
        m.imports.append((imod(), deco('tab'), 'table', (rnd.randint(8, 20), None)))
    imp_globals = []  # (idx, type, mut)
    for i in range(rnd.randint(0, 4)):
        t = rnd.choice(TYPES) if i else I32
        mut = rnd.random() < 0.4 and i > 0
        nm = deco('ig%d' % i)
        gmod = imod()
        m.imports.append((gmod, nm, 'global', (t, mut)))
        v = nonnan(rnd, t)
        if i == 0:
            v = rnd.randint(0, 40)  # usable as a segment offset
        inits[(gmod, nm)] = v
        if i == 0:
            ig0_key = (gmod, nm)
        imp_globals.append((len(imp_globals), t, mut))
    if memk == 'defined':
        m.mems.append((rnd.randint(1, 3), rnd.choice([None, 3, 8]), False))
    if memk == 'shared':
        m.mems.append((rnd.randint(1, 3), rnd.choice([3, 8]), True))
    if memk != 'none':
        m.exports.append((rnd.choice(['memory', 'memory', 'm\u00e9m', 'mem-0', 'Xmem__x', '\u8a18\u61b6']), 'memory', 0))
    tsize = 0
    if tblk == 'defined':
        tsize = rnd.randint(8, 20)
        m.tables.append((tsize, tsize))
        m.exports.append(('table', 'table', 0))
    elif tblk == 'imported':
        tsize = [i for i in m.imports if i[2] == 'table'][0][3][0]
    # defined globals
    gl = list(imp_globals)
    imm_imports = [g for g in imp_globals if not g[2]]
    for i in range(rnd.randint(1, 6)):
        t = rnd.choice(TYPES)
        mut = rnd.random() < 0.6
        cands = [g for g in imm_imports if g[1] == t]
        if cands and rnd.random() < 0.5:
            init = [('global.get', rnd.choice(cands)[0])]
        else:
            bits = nonnan(rnd, t) if rnd.random() < 0.7 else rnd.getrandbits(32 if t in (I32, F32) else 64)
            init = [('%s.const' % t, bits)]
        m.globals.append((t, mut, init))
        gl.append((len(gl), t, mut))
    counter = len(gl)
    m.globals.append((I32, True, [('i32.const', 100)]))
    gl.append((counter, I32, True))
    # functions: identity functions for table, getters/setters, peek/poke, ci probe, start
    ids = []
    for i in range(4):
        ids.append(m.add_func([], [I32], [], [('i32.const', 7000 + i)]))
    exports = []
    used_names = set()

    def uname(base):
        n = base
        j = 0
        while n in used_names:
            j += 1
            n = '%s%d' % (base, j)
        used_names.add(n)
        return n

    for gi, t, mut in gl:
        conv = {F32: [('i32.reinterpret_f32',)], F64: [('i64.reinterpret_f64',)]}.get(t, [])
        it = I32 if t in (I32, F32) else I64
        nm = uname('%s%d' % (rnd.choice(NAMES), gi))
        m.add_func([], [it], [], [('global.get', gi)] + conv, export=nm)
        exports.append(('getg', gi, nm))
        if mut:
            back = {F32: [('f32.reinterpret_i32',)], F64: [('f64.reinterpret_i64',)]}.get(t, [])
            nm = uname('set_%d' % gi)
            m.add_func([it], [], [], [('local.get', 0)] + back + [('global.set', gi)], export=nm)
            exports.append(('setg', gi, nm))
    if memk != 'none':
        m.add_func([I32], [I32], [], [('local.get', 0), ('i32.load8_u', 0, 0)], export='peek')
        m.add_func([I32, I32], [], [], [('local.get', 0), ('local.get', 1), ('i32.store8', 0, 0)], export='poke')
    if tblk != 'none':
        m.add_func([I32], [I32], [], [('local.get', 0), ('call_indirect', m.add_type([], [I32]), 0)], export='ci')
    # data segments
    ndata = 0
    if memk != 'none':
        for i in range(rnd.randint(0, 6)):
            L = rnd.choice([0, 1, 5, 40, 700])
            style = rnd.random()
            if style < 0.25:
                data = b'\0' * L  # all-zero segments must still overwrite what earlier segments put there
            elif style < 0.35:
                data = b'\xff' * L
            elif style < 0.6:
                data = bytes(rnd.choice([0, 0, rnd.getrandbits(8)]) for _ in range(L))
            else:
                data = bytes(rnd.getrandbits(8) | 1 for _ in range(L))
            if rnd.random() < 0.25:
                m.datas.append(dict(mode='passive', bytes=data))
            else:
                if imm_imports and imm_imports[0][1] == I32 and rnd.random() < 0.4:
                    off = [('global.get', 0)]
                else:
                    off = [('i32.const', rnd.choice([0, 1, 3, 16, 20, 30, 64, 100, 65536 - len(data), rnd.randint(0, 2000)]))]  # few offsets: overlaps are frequent
                m.datas.append(dict(mode='active', offset=off, bytes=data, flag=rnd.choice([0, 0, 2])))
            ndata += 1
        m.datacount = rnd.choice([True, None])
    # element segments
    if tblk != 'none':
        for i in range(rnd.randint(0, 4)):
            n = rnd.randint(0, 5)
            if imm_imports and rnd.random() < 0.4 and inits[ig0_key] + n <= tsize:
                off = [('global.get', 0)]
            else:
                off = [('i32.const', rnd.randint(0, tsize - n))]
            m.elems.append((0, off, [rnd.choice(ids) for _ in range(n)]))
    if has_start:
        body = []
        # report what the start function finds: counter, a memory byte, a table probe; then mutate
        body += [('global.get', counter), ('i64.const', 1), ('call', host)]
        if memk != 'none':
            body += [('i32.const', 16), ('i32.load8_u', 0, 0), ('i64.const', 2), ('call', host)]
            body += [('i32.const', 5), ('i32.const', 0xEE), ('i32.store8', 0, 0)]
        for gi, t, mut in gl[:3]:
            if t == I32:
                body += [('global.get', gi), ('i64.const', 3), ('call', host)]
        body += [('global.get', counter), ('i32.const', 1), ('i32.add',), ('global.set', counter)]
        m.start = boot if start_is_import else m.add_func([], [], [], body)
    return m, exports, inits, (memk, tblk, has_start, ndata, len(m.elems), len(gl)), tsize, {g[0]: g[1] for g in gl}


def script_for(rnd, plan, m, exports, shape, tsize, gtypes):
    memk, tblk, has_start = shape[:3]
    lines = []
    kinds = []

    def emit(line, kind, inst):
        lines.append(line)
        kinds.append((kind, inst))

    def dump(inst):
        if memk != 'none':
            emit('m %d 0' % inst, 'mem', inst)
            emit('w %d 0 0 128' % inst, 'mem', inst)
        for kind, gi, nm in exports:
            if kind == 'getg':
                emit('c %d %d' % (inst, plan.fk(nm)), 'global', inst)
        if tblk != 'none':
            emit('T %d 0' % inst, 'table', inst)
        for i, imp in enumerate([i for i in plan.imports if i['kind'] == 'global']):
            emit('G %d' % i, 'impglobal', inst)

    emit('I 0', 'inst', 0)
    emit('t', 'starttrace', 0)
    emit('U 0', 'exportnames', 0)
    dump(0)
    if tblk != 'none':
        emit('T 0 0', 'table', 0)
    # mutate A before B exists
    setters = [e for e in exports if e[0] == 'setg']
    def setval(gi):
        # never a NaN pattern for float globals (a JS Global would canonicalise it behind our back)
        t = gtypes[gi]
        return nonnan(rnd, t) if t in (F32, F64) else rnd.getrandbits(31)

    for kind, gi, nm in setters[:2]:
        emit('c 0 %d %s' % (plan.fk(nm), hex(setval(gi))), 'set', 0)
    if memk != 'none':
        emit('c 0 %d 0x10 0x77' % plan.fk('poke'), 'poke', 0)
        emit('c 0 %d 0x3000 0x55' % plan.fk('poke'), 'poke', 0)
    # the second instance is either instantiated afresh or created as a CHILD of the first (common.newChild, what thread-spawn uses):
    # without shared memories a child is observably a fresh instance built with the same resolver, whose start function runs on the child
    emit('N 0 1' if rnd.random() < (0.7 if memk == 'shared' else 0.4) else 'I 1', 'inst', 1)
    emit('t', 'starttrace', 1)
    emit('U 1', 'exportnames', 1)
    dump(1)
    dump(0)
    for i in range(30):
        inst = rnd.randint(0, 1)
        x = rnd.random()
        if x < 0.3 and setters:
            kind, gi, nm = rnd.choice(setters)
            emit('c %d %d %s' % (inst, plan.fk(nm), hex(setval(gi))), 'set', inst)
        elif x < 0.5 and memk != 'none':
            emit('c %d %d %s %s' % (inst, plan.fk('poke'), hex(rnd.randint(0, 65535)), hex(rnd.getrandbits(8))), 'poke', inst)
        elif x < 0.7 and memk != 'none':
            emit('c %d %d %s' % (inst, plan.fk('peek'), hex(rnd.choice([5, 16, 0x10, 0x3000, rnd.randint(0, 65535)]))), 'peek', inst)
        else:
            g = [e for e in exports if e[0] == 'getg']
            kind, gi, nm = rnd.choice(g)
            emit('c %d %d' % (inst, plan.fk(nm)), 'global', inst)
    dump(0)
    dump(1)
    if memk == 'shared' and rnd.random() < 0.5:
        # a second child (of either instance): shares that instance's memory, has its own globals, start runs on it
        emit('N %d 2' % rnd.randint(0, 1), 'inst', 2)
        emit('t', 'starttrace', 2)
        dump(2)
        dump(0)
        dump(1)
        for i in range(6):
            inst = rnd.randint(0, 2)
            if rnd.random() < 0.5:
                emit('c %d %d %s %s' % (inst, plan.fk('poke'), hex(rnd.randint(0, 65535)), hex(rnd.getrandbits(8))), 'poke', inst)
            else:
                emit('c %d %d %s' % (inst, plan.fk('peek'), hex(rnd.choice([5, 16, 0x3000, rnd.randint(0, 65535)]))), 'peek', inst)
        dump(2)
        dump(0)
    # (instances of a module with a defined shared memory are not freed here: parent and child both own the one memory object)
    if memk != 'shared' and rnd.random() < 0.4:
        # free one instance and instantiate it again (or a third one): the fresh instance starts from the specified initial state
        # again, the surviving instance keeps its own state, objects handed out by the resolver stay usable (not freed with the instance)
        victim = rnd.randint(0, 1)
        fresh = rnd.choice([victim, 2])
        emit('F %d' % victim, 'free', victim)
        emit(('N %d %d' % (1 - victim, fresh)) if rnd.random() < 0.4 else 'I %d' % fresh, 'inst', fresh)
        emit('t', 'starttrace', fresh)
        dump(fresh)
        dump(1 - victim)
        for i in range(8):
            inst = rnd.choice([fresh, 1 - victim])
            g = [e for e in exports if e[0] == 'getg']
            if setters and rnd.random() < 0.4:
                kind, gi, nm = rnd.choice(setters)
                emit('c %d %d %s' % (inst, plan.fk(nm), hex(setval(gi))), 'set', inst)
            elif memk != 'none' and rnd.random() < 0.5:
                emit('c %d %d %s %s' % (inst, plan.fk('poke'), hex(rnd.randint(0, 65535)), hex(rnd.getrandbits(8))), 'poke', inst)
            else:
                kind, gi, nm = rnd.choice(g)
                emit('c %d %d' % (inst, plan.fk(nm)), 'global', inst)
        dump(fresh)
        dump(1 - victim)
    return '\n'.join(lines) + '\n', kinds


def probe_slots(plan, ref_lines):
    """From the reference's table bitmap build probe calls for every non-null slot."""
    for l in ref_lines:
        if ' T size=' in l:
            bm = l.split(' ')[3] if len(l.split(' ')) > 3 else ''
            return [i for i, c in enumerate(bm) if c == '1']
    return []


def nul_name_probe(chk, w2c2):
    """Separately keyed probe (Appendix A): export names containing a NUL byte (valid UTF-8, valid module). Documented symbol:
    <module>_<name with the byte escaped as X00>. Kept apart from the main workload so that it can neither mask nor be masked."""
    m = Module()
    m.add_func([], [I32], [], [('i32.const', 41)], export='a\x00b')
    m.add_func([], [I32], [], [('i32.const', 42)], export='a\x00c')
    m.add_func([], [I32], [], [('i32.const', 43)], export='plain')
    b = m.encode()
    plan = e2e.Plan(m)
    script = 'I 0\n' + ''.join('c 0 %d\n' % plan.fk(n) for n in ('a\x00b', 'a\x00c', 'plain'))
    d = env.subdir('c06-nul')
    st, ref, _ = e2e.run_ref(b, plan, script, d)
    if st != 'ok':
        chk.log('note: reference rejected the NUL-name probe module (%s); probe skipped' % str(ref)[:100])
        return
    cst, out, _ = e2e.build_and_run(w2c2, b, plan, script, os.path.join(d, 'c'), cc='gcc', cflags=['-O1'])
    chk.ev(3)
    chk.distinct(('nul-name-probe',))
    files = {'module.wasm': b, 'script.txt': script}
    if cst != 'ok':
        chk.violation('C06:symbol:nul-in-export-name', 'exports named "a\\0b" and "a\\0c" are not reachable under the documented symbols m_aX00b / m_aX00c (stage %s): %s' % (cst, str(out)[-600:]), files)
    elif out != ref:
        chk.violation('C06:symbol:nul-in-export-name', 'exports named "a\\0b" / "a\\0c": compiled %s vs reference %s' % (out[:4], ref[:4]), files)


def leading_digit_probe(chk, w2c2):
    """Separately keyed probe: an import MODULE name that begins with a digit. The documented symbol of an imported function and the
    instance field of an imported global / memory / table are <module>__<name>, which then begins with a digit and is no identifier."""
    m = Module()
    m.import_func('3d', 'draw', [I32], [I32])
    m.imports.append(('1st', 'g', 'global', (I32, False)))
    m.add_func([I32], [I32], [], [('local.get', 0), ('call', 0), ('global.get', 0), ('i32.add',)], export='f')
    b = m.encode()
    plan = e2e.Plan(m, import_inits={('1st', 'g'): 5})
    script = 'I 0\nc 0 %d 0x7\nt\n' % plan.fk('f')
    d = env.subdir('c06-digit')
    st, ref, _ = e2e.run_ref(b, plan, script, d)
    if st != 'ok':
        chk.log('note: reference rejected the leading-digit probe (%s); probe skipped' % str(ref)[:100])
        return
    t = e2e.translate(w2c2, b, os.path.join(d, 'c'), 'm')
    chk.ev(2)
    chk.distinct(('leading-digit-probe',))
    files = {'module.wasm': b, 'script.txt': script}
    if t.rc != 0:
        chk.violation('C06:symbol:import-module-leading-digit', 'module importing from "3d" / "1st" rejected by the translator: %s' % t.err[-300:], files)
        return
    r = env.run(['gcc', '-fsyntax-only', '-w', '-I', e2e.base_include(), '-I', os.path.join(d, 'c'), os.path.join(d, 'c', 'm.c')], timeout=120)
    if r.rc != 0:
        chk.violation('C06:symbol:import-module-leading-digit', 'imports from modules named "3d" and "1st": the generated C does not compile (identifier %s): %s' % (
            '3d__draw / 1st__g', r.err.strip().splitlines()[0][-200:] if r.err.strip() else ''), files)


def main(chk):
    quick = chk.tier == 'quick'
    w2c2 = env.build_translator('plain')
    nshapes = 300 if quick else 6000
    builds = [('gcc-O1', 'gcc', ['-O1'])] + ([] if quick else [('clang-O2', 'clang', ['-O2'])])

    def one(k):
        rnd = env.rng('c06', k)
        m, exports, inits, shape, tsize, gtypes = build(rnd, k)
        b = m.encode(wasm.rot_enc(k))
        plan = e2e.Plan(m, import_inits=inits)
        script, kinds = script_for(rnd, plan, m, exports, shape, tsize, gtypes)
        d = env.subdir('c06-%d' % k)
        ref_b, cfgx, cdefs, link = b, None, [], []
        if shape[0] == 'shared':
            import copy
            mr = copy.deepcopy(m)
            mn, mx, _sh = mr.mems.pop()
            mr.imports.append(('vshm', 'mem', 'memory', (mn, mx, True)))
            ref_b = mr.encode()
            cfgx = {'child_mem': {'mod': 'vshm', 'name': 'mem', 'min': mn, 'max': mx}}
            cdefs, link = ['-DWASM_THREADS_PTHREADS'], ['-lpthread']
        st, ref, _ = e2e.run_ref(ref_b, plan, script, d, cfg_extra=cfgx)
        outs = {}
        if st == 'ok':
            # second pass: add probes of every covered slot (known from the reference's bitmap)
            slots = probe_slots(plan, ref)
            if slots and 'ci' in plan.export_index:
                extra = ['c 0 %d %s' % (plan.fk('ci'), hex(s)) for s in slots] + ['c 1 %d %s' % (plan.fk('ci'), hex(s)) for s in slots]
                ekinds = [('slotprobe', 0)] * len(slots) + [('slotprobe', 1)] * len(slots)
                sl = script.rstrip('\n').split('\n')
                # both instances are alive only up to the first teardown command
                at = next((i for i, l in enumerate(sl) if l.startswith('F ')), len(sl))
                sl[at:at] = extra
                kinds[at:at] = ekinds
                script = '\n'.join(sl) + '\n'
                st, ref, _ = e2e.run_ref(ref_b, plan, script, d, cfg_extra=cfgx)
            kbuilds = list(builds)
            if k % 4 == 0:
                # instance teardown and re-instantiation under ASan+UBSan (use after free / double free of instance-owned and imported objects)
                kbuilds.append(('gcc-O1-asan', 'gcc', ['-O1', '-g', '-fsanitize=address,undefined', '-fno-sanitize-recover=all']))
            for tag, cc, cflags in kbuilds:
                outs[tag] = e2e.build_and_run(w2c2, b, plan, script, os.path.join(d, tag), cc=cc, cflags=cflags, opts=progs.opts_for(k), cdefs=cdefs, link=link)[:2]
        shutil.rmtree(d, ignore_errors=True)
        return k, shape, b, script, kinds, st, ref, outs

    rejected = 0
    for k, shape, b, script, kinds, st, ref, outs in env.pmap(one, range(nshapes)):
        if st == 'invalid':
            rejected += 1
            chk.log('generator bug: %s' % ref)
            continue
        if st != 'ok':
            chk.inconclusive('reference failed on shape %d: %s' % (k, str(ref)[:300]))
            continue
        if any('trap:' in l or 'fail:' in l for l in ref):
            chk.inconclusive('shape %d: generator left the precondition: %s' % (k, [l for l in ref if 'trap:' in l or 'fail:' in l][:2]))
            continue
        files = {'module.wasm': b, 'script.txt': script}
        chk.ev(len(ref))
        for kd in kinds:
            chk.distinct((shape,) + kd)
        chk.observe('shape_mem_' + shape[0])
        chk.observe('shape_table_' + shape[1])
        chk.observe('shape_start_%s' % shape[2])
        chk.observe('data_segments', shape[3])
        chk.observe('elem_segments', shape[4])
        for tag, (cst, out) in outs.items():
            if cst != 'ok':
                what = 'link' if cst == 'compile' and 'undefined reference' in str(out) else cst
                chk.violation('C06:%s:mem=%s:table=%s' % (what, shape[0], shape[1]),
                              'shape %d %s failed at %s (%s): %s' % (k, shape, cst, tag, str(out)[:1500]), files)
                continue
            seen = set()
            for step, kind, ra, rb, i in diff.compare(ref, out, {}):
                kd = kinds[i] if i < len(kinds) else ('?', -1)
                key = 'C06:%s:%s' % (kd[0], kind)
                if kd[0] in ('mem', 'peek'):
                    key = 'C06:data:%s-memory' % shape[0]
                elif kd[0] in ('table', 'slotprobe'):
                    key = 'C06:elem:%s-table' % shape[1]
                elif kd[0] == 'starttrace':
                    key = 'C06:start:trace'
                if key in seen:
                    continue
                seen.add(key)
                chk.violation(key, 'shape %d %s build %s line %d (%s on instance %d): reference "%s" vs compiled "%s"' % (
                    k, shape, tag, i, kd[0], kd[1], ra[:200], rb[:200]),
                    dict(files, reference_out='\n'.join(ref), compiled_out='\n'.join(out)))
        if k < 2:
            chk.sample({'shape': shape, 'lines': ref[:5]})
    nul_name_probe(chk, w2c2)
    leading_digit_probe(chk, w2c2)
    chk.observe('shapes', nshapes, 'set')
    chk.observe('generator_rejected', rejected, 'set')
    if rejected * 100 > nshapes:
        chk.inconclusive('generator produced %d/%d modules rejected by V8' % (rejected, nshapes))
    chk.assume('V8 with two Instances sharing the same imported Memory/Table/Global objects is the reference for two w2c2 instances given the same resolver objects')
    chk.assume('segments are in bounds and offsets read only imported globals, so w2c2\'s initialisation order is unobservable (Appendix A)')


from checks.c01 import replay
