"""C01 Integer instruction semantics and integer traps survive translation.

Monitors: differential execution (V8 on the same binary) of
  1. directed tables: every integer opcode x full cross product of boundary operand sets,
  2. the same tables with the header's non-builtin CLZ/CTZ/POPCNT fallbacks forced,
  3. nested integer programs (typed generator) with trap-code comparison.
The trap handler monitor in the driver counts trap() entries per call (":MULTI" marks more than one).
"""
import os
from vlib import env, e2e, gen, wasm, directed, diff, progs, exhaust
from vlib.wasm import *

LEVEL = 'exploration'
RULE = ('directed: (opcode, operand tuple) evaluations over boundary sets B32/B64 (+seeded randoms), distinct = distinct '
        '(opcode,operands) pairs whose operands include a boundary value; nested: generated integer programs x argument '
        'vectors, distinct = distinct (module hash, function, vector)')

INT_OPS = gen.INT_OPS


def classify_directed(op, args, kind, ra, rb):
    key = 'C01:%s:%s' % (kind, op)
    if kind.startswith('trap'):
        if len(args) == 2 and args[1] == 0:
            key += ':rhs=0'
        elif len(args) == 2 and args[1] in (0xffffffff, 0xffffffffffffffff):
            key += ':rhs=-1'
    return key


def run_directed(chk, w2c2, tag, cc, cflags, cdefs, rnd):
    m = directed.op_module(INT_OPS)
    b = m.encode()
    plan = e2e.Plan(m)
    script, steps, evals, sets = directed.sweep_script(plan, INT_OPS, rnd)
    d = env.subdir('c01-directed-' + tag)
    with open(os.path.join(d, 'nobuiltin.h'), 'w') as f:
        f.write(directed.NOBUILTIN_H)
    st, ref, _ = e2e.run_ref(b, plan, script, d)
    if st != 'ok':
        chk.inconclusive('reference failed on directed module: %s %s' % (st, ref))
        return
    st, out, r = e2e.build_and_run(w2c2, b, plan, script, d, cc=cc, cflags=cflags, cdefs=cdefs)
    files = {'module.wasm': b, 'script.txt': script, 'build.txt': '%s %s %s' % (cc, cflags, cdefs)}
    if st != 'ok':
        chk.violation('C01:directed:%s:%s' % (st, tag), 'directed integer module failed at stage %s: %s' % (st, str(out)[:1500]), files)
        return
    diffs = diff.compare(ref, out, steps)
    chk.ev(len(out) - 1)
    for line in out:
        p = diff.parse_call(line)
        if p:
            chk.distinct((p[1],) + tuple(p[2]))
            if p[3].startswith('trap'):
                chk.observe('traps_seen_' + p[3].split(':')[1])
    chk.observe('directed_ops_' + tag, len(INT_OPS), 'set')
    chk.observe('operand_set_sizes', {t: len(s) for t, s in sets.items() if t in (I32, I64)}, 'set')
    for step, kind, ra, rb, i in diffs:
        meta = steps.get(step, {})
        p = diff.parse_call(out[i]) if i < len(out) else None
        args = p[2] if p else []
        key = classify_directed(meta.get('name', '?'), args, kind, ra, rb)
        chk.violation(key, '%s(%s): reference %s, compiled (%s) %s' % (meta.get('name'), ','.join(hex(a) for a in args), ra, tag, rb),
                      dict(files, reference_line=ref[i] if i < len(ref) else '', compiled_line=out[i] if i < len(out) else ''))
    chk.sample({'kind': 'directed', 'build': tag, 'first_lines': out[1:4]})


def main(chk):
    quick = chk.tier == 'quick'
    w2c2 = env.build_translator('plain')
    rnd = env.rng('c01')
    nb = ['-include', 'nobuiltin.h']
    builds = [('gcc-O1', 'gcc', ['-O1'], []), ('gcc-O2-nobuiltin', 'gcc', ['-O2'], nb), ('gcc-O0-gnu89-unsigned-char', 'gcc', ['-O0', '-std=gnu89', '-funsigned-char'], [])]
    if not quick:
        builds += [('clang-O2', 'clang', ['-O2'], []), ('clang-O0-nobuiltin', 'clang', ['-O0'], nb)]
    env.pmap(lambda bl: run_directed(chk, w2c2, bl[0], bl[1], bl[2], bl[3], env.rng('c01-dir')), builds)

    # in-module sweeps: every integer opcode over all 2^32 patterns of a 32-bit operand (thorough) / seeded lattices (quick)
    exhaust.run_sweeps(chk, w2c2, 'C01', [e for e in exhaust.sweep_ops() if e[1] in gen.INT_OPS], builds,
                       slow_builds=(() if quick else ('clang-O0-nobuiltin', 'gcc-O0-gnu89-unsigned-char')))

    # the same opcodes on compile-time CONSTANT operands (what the C compiler folds), every non-trapping tuple of the tables
    exhaust.run_constfold(chk, w2c2, 'C01', gen.INT_OPS, builds, env.rng('c01-constfold'))

    # nested programs
    prof = gen.Profile(ops=set(gen.INT_OPS), types=[I32, I64], nan_canon=False, w_trace=0.3)
    nmods = 160 if quick else 1500
    vectors = 8 if quick else 12
    pbuilds = [('gcc-O1', 'gcc', ['-O1'], [], None)]
    if not quick:
        pbuilds.append(('clang-O2', 'clang', ['-O2'], [], None))

    def one(k):
        d = env.subdir('c01-n%d' % k)
        res = progs.run_program(w2c2, ('c01-nested', k), prof, d, pbuilds, n_funcs=12, vectors=vectors, opts=progs.opts_for(k))
        return k, res

    rejected = 0
    for k, res in env.pmap(one, range(nmods)):
        if res.ref_stage == 'invalid':
            rejected += 1
            continue
        if res.ref_stage != 'ok':
            chk.inconclusive('reference run failed for nested module %d: %s' % (k, res.ref))
            continue
        files = {'module.wasm': res.wasm, 'script.txt': res.script}
        for tag, (st, out, diffs) in res.builds.items():
            if st != 'ok':
                chk.violation('C01:nested:%s' % st, 'nested module %d failed at %s (%s): %s' % (k, st, tag, str(out)[:1200]), files)
                continue
            calls = [l for l in out if ' c ' in l]
            chk.ev(len(calls) // 3)
            h = env.sha(res.wasm)[:12]
            for l in res.ref:
                p = diff.parse_call(l)
                if p and p[1] < len(res.ctx.export_wrappers):
                    chk.distinct((h, p[1]) + tuple(p[2]))
                    if p[3].startswith('trap'):
                        chk.observe('nested_traps_' + p[3].split(':')[1])
            seen = set()
            for step, kind, ra, rb, i in diffs:
                key = 'C01:nested:%s' % kind
                if kind == 'trapcode':
                    key += ':%s->%s' % (ra.split(':')[-1], rb.split(':')[-1])
                if key in seen:
                    continue
                seen.add(key)
                chk.violation(key, 'module %d build %s: %s' % (k, tag, progs.first_divergent_call(res, tag)),
                              dict(files, reference_out='\n'.join(res.ref), compiled_out='\n'.join(out)))
        if k < 2:
            chk.sample({'kind': 'nested', 'module': k, 'bytes': len(res.wasm), 'lines': res.ref[1:4]})
        import shutil
        shutil.rmtree(env.subdir('c01-n%d' % k), ignore_errors=True)
    chk.observe('nested_modules', nmods, 'set')
    chk.observe('generator_rejected', rejected, 'set')
    if rejected * 100 > nmods:
        chk.inconclusive('generator produced %d/%d modules rejected by V8' % (rejected, nmods))
    chk.assume('V8 (node v20) is a conformant reference; gcc/clang compile the generated C correctly at the flag sets used')


def replay(chk, path):
    """Re-run one witness bundle: module.wasm + script.txt against the current tree."""
    w2c2 = env.build_translator('plain')
    b = open(os.path.join(path, 'module.wasm'), 'rb').read()
    script = open(os.path.join(path, 'script.txt')).read()
    m = wasm.decode(b)
    plan = e2e.Plan(m)
    d = env.subdir('replay')
    st, ref, _ = e2e.run_ref(b, plan, script, d)
    st2, out, _ = e2e.build_and_run(w2c2, b, plan, script, d, cflags=['-O1'])
    if st != 'ok' or st2 != 'ok':
        chk.violation('%s:replay:%s' % (chk.pid, st2), str(out)[:1000])
        return
    for step, kind, ra, rb, i in diff.compare(ref, out, {}):
        chk.violation('%s:replay:%s' % (chk.pid, kind), 'line %d: reference "%s" compiled "%s"' % (i, ref[i], out[i]))
    chk.ev(len(out))
    chk.distinct('a')
    chk.distinct('b')
