"""C18 Growing a shared memory from several threads is linearizable and race-free.

harness/grow_stress.c runs T threads on child instances of a translated module with a shared memory; each performs
grows (deltas 0,1,2,3,max+1,big), size queries and loads/stores of thread-private cells. The boundary history
(call/return sequence numbers from one atomic counter) is checked offline against a sequential counter-with-maximum:
 - successful grows with delta>0 return pairwise distinct old sizes forming a chain from the initial size; the final size
   equals initial + sum of successful deltas and never exceeds the maximum;
 - a failed grow is legal only if the size could not fit at some instant of the call;
 - size (and grow 0) results are non-decreasing per thread and lie between what was certainly reached before the call and
   what may have been reached before the return; loads return the thread's last store.
TSan build: no report on the memory descriptor. The yield hook between the size read and the lock widens the window.
"""
import os, shutil
from vlib import env, e2e, wasm, san
from vlib.wasm import *

LEVEL = 'exploration'
RULE = ('threaded histories; evaluation = one logged operation; distinct = distinct grow orders (sequence of (thread, delta) sorted by returned old size) '
        'plus (limits, threads, build); a history is non-trivial when at least two threads grow successfully')


def build_module(mn, mx, imported=False):
    m = Module()
    if imported:
        # the wasi-threads shape (--import-memory --shared-memory): the embedder owns the shared memory
        m.imports.append(('env', 'memory', 'memory', (mn, mx, True)))
    else:
        m.mems.append((mn, mx, True))
    m.exports.append(('mem', 'memory', 0))
    m.add_func([I32], [I32], [], [('local.get', 0), ('memory.grow',)], export='grow')
    m.add_func([], [I32], [], [('memory.size',)], export='size')
    m.add_func([I32, I32], [], [], [('local.get', 0), ('local.get', 1), ('i32.store', 2, 0)], export='store')
    m.add_func([I32], [I32], [], [('local.get', 0), ('i32.load', 2, 0)], export='load')
    # instructions of the threads proposal that other threads execute on the same memory while it grows
    m.add_func([I32, I32], [I32], [], [('local.get', 0), ('local.get', 1), ('i64.const', 0), ('memory.atomic.wait32', 2, 0)], export='wait0')
    m.add_func([I32, I32], [I32], [], [('local.get', 0), ('local.get', 1), ('memory.atomic.notify', 2, 0)], export='notify')
    m.add_func([I32, I32], [I32], [], [('local.get', 0), ('local.get', 1), ('i32.atomic.rmw.add', 2, 0)], export='aadd')
    # bulk memory from a passive segment, and an active segment (applied again for every child instance): both touch the memory
    # through the descriptor while other threads grow it
    m.datas.append(dict(mode='active', offset=[('i32.const', 48)], bytes=b'\xd1\xd2\xd3\xd4'))
    m.datas.append(dict(mode='passive', bytes=bytes(range(0x41, 0x51))))
    m.add_func([I32, I32], [], [], [('local.get', 0), ('i32.const', 0), ('local.get', 1), ('memory.init', 1)], export='init')
    return m


def check_history(text):
    V = []
    init = mx = final = None
    counter = -1
    ops = []
    for l in text.splitlines():
        if l.startswith('INIT'):
            kv = dict(x.split('=') for x in l.split(' ')[1:])
            init, mx, final = int(kv['pages']), int(kv['max']), int(kv['final'])
            counter = int(kv.get('counter', -1))
        elif l.startswith('O '):
            t = l.split(' ')
            ops.append(dict(t=int(t[1]), c=int(t[2]), r=int(t[3]), op=int(t[4]), arg=int(t[5]), res=int(t[6])))
    if init is None:
        return [('C18:harness', 'no INIT line')], {}, ()
    FAIL = 0xffffffff
    succ = [o for o in ops if o['op'] == 0 and o['res'] != FAIL and o['arg'] > 0]
    stats = {'ops': len(ops), 'frontier_ops': sum(1 for o in ops if 4 <= o['op'] <= 6), 'grows_ok': len(succ), 'grows_failed': sum(1 for o in ops if o['op'] == 0 and o['res'] == FAIL),
             'growing_threads': len(set(o['t'] for o in succ))}
    # chain
    olds = sorted(succ, key=lambda o: o['res'])
    cur = init
    chain_ok = True
    seen_old = set()
    for o in olds:
        if o['res'] in seen_old:
            V.append(('C18:chain:duplicate-old-size', 'two successful grows returned the same old size %d (lost update)' % o['res']))
            chain_ok = False
            break
        seen_old.add(o['res'])
        if o['res'] != cur:
            V.append(('C18:chain:gap', 'successful grows do not form a chain: expected old size %d, got %d (delta %d, thread %d)' % (cur, o['res'], o['arg'], o['t'])))
            chain_ok = False
            break
        cur += o['arg']
    total = init + sum(o['arg'] for o in succ)
    if final != total:
        V.append(('C18:final-size', 'final size %d != initial %d + sum of successful deltas %d' % (final, init, total - init)))
    if final > mx:
        V.append(('C18:exceeds-maximum', 'final size %d exceeds the declared maximum %d' % (final, mx)))
    # bounds: reached(s) before a point / possibly reached before a point
    def certain_before(seq):
        return max([init] + [o['res'] + o['arg'] for o in succ if o['r'] < seq])

    def possible_before(seq):
        return max([init] + [o['res'] + o['arg'] for o in succ if o['c'] < seq])

    if chain_ok:
        for o in ops:
            if o['op'] == 0 and o['res'] == FAIL:
                U = possible_before(o['r'])
                if not (U + o['arg'] > mx or o['arg'] + U >= 0x10000):
                    V.append(('C18:spurious-failure', 'grow(%d) failed although the size never exceeded %d of max %d during the call' % (o['arg'], U, mx)))
            if (o['op'] == 0 and o['arg'] == 0 and o['res'] != FAIL) or o['op'] == 1:
                L, U = certain_before(o['c']), possible_before(o['r'])
                if not (L <= o['res'] <= U):
                    V.append(('C18:size-out-of-range:%s' % ('size' if o['op'] == 1 else 'grow0'), '%s returned %d, but the size was certainly >= %d before the call and <= %d at return' % (
                        'memory.size' if o['op'] == 1 else 'grow(0)', o['res'], L, U)))
            if o['op'] == 0 and o['res'] != FAIL and o['arg'] > 0:
                L, U = certain_before(o['c']), possible_before(o['r'])
                if not (L <= o['res'] <= U):
                    V.append(('C18:old-size-out-of-range', 'grow(%d) returned old size %d outside [%d,%d]' % (o['arg'], o['res'], L, U)))
    # per-thread monotonicity of observed sizes
    last = {}
    for o in sorted(ops, key=lambda o: o['c']):
        if o['op'] == 1 or (o['op'] == 0 and o['res'] != FAIL):
            v = o['res'] + (o['arg'] if o['op'] == 0 else 0)
            seen = o['res']
            if seen < last.get(o['t'], 0):
                V.append(('C18:size-decreased', 'thread %d observed size %d after having observed %d' % (o['t'], seen, last[o['t']])))
            last[o['t']] = max(last.get(o['t'], 0), v if o['op'] == 0 else seen)
        if o['op'] == 3 and o['res'] != o['arg']:
            V.append(('C18:data-lost', 'thread %d loaded %#x from its private cell, last stored %#x' % (o['t'], o['res'], o['arg'])))
        if o['op'] == 4 and o['res'] != 0:
            V.append(('C18:new-page-not-zero', 'thread %d read %#x from a never-written cell of page %d that it had observed to exist (new pages must be zero)' % (o['t'], o['res'], o['arg'])))
        if o['op'] == 6 and o['res'] != o['arg']:
            V.append(('C18:data-lost:grown-page', 'thread %d loaded %#x from its private cell in a page added by a grow, last stored %#x (a store made after the new size was observed was undone)' % (o['t'], o['res'], o['arg'])))
    # operations of other kinds executed while the memory grows keep their own specified results
    adds = [o for o in ops if o['op'] == 9]
    for o in ops:
        if o['op'] == 7 and o['res'] != (2 if o['arg'] else 1):
            V.append(('C18:concurrent-wait-result', 'thread %d: memory.atomic.wait32 with timeout 0 on its private cell (%s expected value) returned %d' % (o['t'], 'equal' if o['arg'] else 'different', o['res'])))
        if o['op'] == 8 and o['res'] != 0:
            V.append(('C18:concurrent-notify-result', 'thread %d: notify on a cell nobody waits on woke %d' % (o['t'], o['res'])))
    for o in ops:
        if o['op'] == 10 and o['res'] != o['arg']:
            V.append(('C18:concurrent-memory-init', 'thread %d: memory.init of 8 segment bytes into its private cells read back %#x, expected %#x' % (o['t'], o['res'], o['arg'])))
    if adds:
        olds_ = sorted(o['res'] for o in adds)
        if olds_ != list(range(len(adds))) or counter != len(adds):
            V.append(('C18:atomic-lost-during-grow', '%d atomic increments of the shared counter ran while the memory was growing: final value %d, returned old values %s' % (
                len(adds), counter, 'are a permutation of 0..n-1' if olds_ == list(range(len(adds))) else 'repeat or skip (first anomaly near %s)' % next((a for a, b in zip(olds_, range(len(adds))) if a != b), '?'))))
    stats['other_ops'] = sum(1 for o in ops if o['op'] >= 7)
    sig = tuple((o['t'], o['arg']) for o in olds[:40])
    return V, stats, sig


def opname_of(stack_text):
    for nm, short in (('gm_grow', 'grow'), ('gm_size', 'size'), ('gm_load', 'load'), ('gm_store', 'store'), ('wasmMemoryGrow', 'grow'), ('i32_store', 'store'), ('i32_load', 'load')):
        if nm in stack_text:
            return short
    return '?'


def main(chk):
    quick = chk.tier == 'quick'
    w2c2 = env.build_translator('plain')
    root = env.subdir('c18')
    limits = [(1, 8), (1, 64), (2, 3), (1, 200), (4, 4), (1, 32)]
    imported = {0, 5}        # these limit shapes IMPORT their shared memory (one translated into a single file, one with -f 1)
    exes = {}
    for li, (mn, mx) in enumerate(limits):
        d = os.path.join(root, 'l%d' % li)
        b = build_module(mn, mx, li in imported).encode()
        # odd limit shapes are translated into one file per function (-f 1): grow, size, load and store then live in different
        # translation units of the same program, which is how large modules are normally built
        t = e2e.translate(w2c2, b, d, 'gm', ['-f', '1'] if li % 2 else [])
        if t.rc != 0:
            chk.violation('C18:translate', 'module rejected: %s' % t.err[-300:], {'module.wasm': b})
            return
        srcs = [os.path.join(d, f) for f in t.files if f.endswith('.c')] + [os.path.join(env.VERIF, 'harness', 'grow_stress.c')] + [os.path.join(env.REPO, 'futex', f) for f in ('futex.c', 'list.c', 'map.c')]
        for tag, fl in (('plain', ['-O1', '-g', '-DW2C2_VERIF=1']), ('tsan', ['-O1', '-g', '-fsanitize=thread', '-DW2C2_VERIF=1']), ('noguard', ['-O2', '-DNDEBUG'])):   # the release configuration of an embedder: hooks off, assertions compiled out
            exe = os.path.join(d, 'gs-' + tag)
            r = env.run(['gcc'] + fl + (['-DIMPORTED_MEM=1', '-DMEM_MIN=%d' % mn, '-DMEM_MAX=%d' % mx] if li in imported else []) + ['-w', '-DWASM_THREADS_PTHREADS', '-I', e2e.base_include(), '-I', os.path.join(env.REPO, 'futex'), '-I', d] + srcs + ['-o', exe, '-lpthread', '-lm'], timeout=600)
            if r.rc != 0:
                chk.violation('C18:compile:%s' % tag, 'grow harness does not build: %s' % r.err[-1500:], {'module.wasm': b})
                continue
            exes[(li, tag)] = exe
    nh = 800 if quick else 5000
    jobs = []
    for k in range(nh):
        r0 = env.rng('c18', k)
        li = k % len(limits)
        tag = ['plain', 'tsan', 'plain', 'noguard'][(k // len(limits)) % 4]     # independent of li: every limit shape runs under every build
        if (li, tag) not in exes:
            continue
        T = r0.choice([2, 4, 8, 8, 16])
        n = r0.choice([20, 50, 100, 200])
        jobs.append((k, li, tag, T, n))

    hangs = {}

    def one(job):
        k, li, tag, T, n = job
        if hangs.get(tag, 0) >= 3:
            return job, None          # three runs of this build already hung (each reported): do not spend the watchdog on every remaining one
        r = env.run([exes[(li, tag)], str(env.SEED * 100000 + k), str(T), str(n), '1'], env=dict(env.SAN_ENV, TSAN_OPTIONS='halt_on_error=0:exitcode=0:report_thread_leaks=0'), timeout=90)
        if r.timeout:
            hangs[tag] = hangs.get(tag, 0) + 1
        return job, r

    sigs = set()
    contended = 0
    for (k, li, tag, T, n), r in env.pmap(one, jobs):
        if r is None:
            chk.observe('runs_skipped_after_three_hangs_' + tag)
            continue
        cmd = 'grow_stress[%s limits=%s] %d %d %d 1' % (tag, limits[li], env.SEED * 100000 + k, T, n)
        files = {'cmd.txt': cmd, 'stdout.txt': r.out[-100000:], 'stderr.txt': r.err[-10000:]}
        for rp in san.parse_tsan(r.err, env.REPO):
            parts = rp['text'].split('Previous')
            second = parts[1].split('As if synchronized')[0].split('Location is')[0].split('Mutex M')[0] if len(parts) > 1 else ''
            ops_ = '~'.join(sorted(set(x for x in [opname_of(parts[0]), opname_of(second)])))
            chk.violation('C18:tsan:%s:%s' % (rp['kind'], ops_), 'ThreadSanitizer (%s): %s' % (cmd, rp['text'][:700]), files)
        if r.timeout or 'DONE' not in r.out:
            chk.violation('C18:crash', 'harness died or hung (%s): rc %s %s' % (cmd, r.rc, r.err[-300:]), files)
            continue
        V, stats, sig = check_history(r.out)
        chk.ev(stats.get('ops', 0))
        chk.observe('grows_ok', stats.get('grows_ok', 0))
        chk.observe('grows_failed', stats.get('grows_failed', 0))
        chk.observe('accesses_to_grown_pages', stats.get('frontier_ops', 0))
        chk.observe('wait_notify_atomic_ops_during_grows', stats.get('other_ops', 0))
        chk.observe('histories_' + tag)
        if stats.get('growing_threads', 0) >= 2:
            contended += 1
            sigs.add(sig)
            chk.distinct(sig)
        chk.distinct((limits[li], T, tag))
        seen = set()
        for key, text in V:
            if key not in seen:
                seen.add(key)
                chk.violation(key, '%s [%s]' % (text, cmd), files)
    chk.observe('histories_with_contended_grows', contended, 'set')
    chk.observe('distinct_grow_orders', len(sigs), 'set')
    if contended < nh // 8:
        chk.inconclusive('only %d histories had two or more threads growing successfully' % contended)
    chk.sample({'history': 'T=8 threads, 100 ops each: grow{0,1,2,3,max+1,65536+k}, size, store/load of private cells', 'limits': limits})
    chk.assume('linearizability is decided with interval bounds that are sound because sizes only increase; TSan explores the schedules that stress and the yield hook produce')


def replay(chk, path):
    print(open(os.path.join(path, 'cmd.txt')).read())
    chk.ev(2)
    chk.distinct(1)
    chk.distinct(2)
