"""C20 The translator touches only its own output files.

Each case builds a sandbox tree (in/, out/, out/sub/, elsewhere/), pre-populates decoys (exact matches of the
implementation-file pattern and near misses), runs the plain guard-off translator under `strace -f -e trace=%file`
with a cwd / output path / option combination, and compares a full snapshot (type, size, sha256, link target) of
the sandbox before and after; strace additionally shows writes/unlinks outside the sandbox.
Oracle straight from the property text.
"""
import os, re, shutil, hashlib, stat
from vlib import env, wasm, hostile, gen

LEVEL = 'exploration'
RULE = ('sandboxed translator runs; evaluation = one run (output path form, cwd, options, decoy set); distinct = distinct '
        '(path form, cwd form, option tuple, decoy-set hash); every run is non-trivial: decoys of several near-miss kinds are always present')

PATTERN = re.compile(r'^[sd][0-9]{10}\.c$')

EXACT = ['s0000000000.c', 'd0000000042.c', 's9999999999.c', 'd0000000000.c', 's0000000001.c']
NEAR = ['s000000000.c', 's00000000000.c', 'x0000000000.c', 'S0000000000.c', 'D0000000001.c', 's00000a0000.c', 's0000000000.h',
        's0000000000.cc', 's0000000000.c.bak', 's0000000000.C', '.s0000000000.c', 's000000000x.c', 'd000000000 .c', 't0000000000.c',
        'main.c', 'other.c', 'other.h', 'Makefile', 'datasegments.bak', 's0000000000c', 's0000000000.d', 'ss000000000.c', 'd-000000001.c',
        's0000000000.c ', '0000000000s.c', 'sd00000000.c', 's+000000001.c']


# 13-character names with the right prefix and extension where ONE of the ten digit positions holds a character that lenient
# number parsers accept (sign, blanks, radix letters, exponent, separators)
for _pos in range(10):
    for _ch in ' +-\tXxe.,_':
        _d = list('0000000007')
        _d[_pos] = _ch
        NEAR.append(('s' if _pos % 2 else 'd') + ''.join(_d) + '.c')
NEAR += ['s0x0000001f.c', 'd0X00000001.c', 's00000001e1.c', 'd         7.c', 's\t\t\t\t\t\t\t\t\t1.c']


def snapshot(root):
    snap = {}
    for dp, dns, fns in os.walk(root):
        for n in dns + fns:
            p = os.path.join(dp, n)
            rel = os.path.relpath(p, root)
            st = os.lstat(p)
            if stat.S_ISLNK(st.st_mode):
                snap[rel] = ('link', os.readlink(p))
            elif stat.S_ISDIR(st.st_mode):
                snap[rel] = ('dir',)
            else:
                with open(p, 'rb') as f:
                    snap[rel] = ('file', st.st_size, hashlib.sha256(f.read()).hexdigest())
    return snap


SYSC = re.compile(r'^(\d+)\s+(\w+)\((.*)\)\s+=\s+(-?\d+|\?)')
QSTR = re.compile(r'"((?:[^"\\]|\\.)*)"')


def parse_strace(text, cwd0):
    """Return list of (action, abs path) for successful write-opens, creations, unlinks, renames, mkdirs, truncates."""
    cwd = {}
    acts = []
    for line in text.splitlines():
        m = SYSC.match(line)
        if not m:
            continue
        pid, name, args, ret = m.groups()
        if ret == '?' or int(ret) < 0:
            continue
        strs = [bytes(s, 'latin-1').decode('unicode_escape') for s in QSTR.findall(args)]
        c = cwd.get('all', cwd0)  # threads share the working directory

        def ab(p):
            return os.path.normpath(p if os.path.isabs(p) else os.path.join(c, p))

        if name == 'chdir' and strs:
            cwd['all'] = ab(strs[0])
        elif name in ('open', 'openat', 'creat') and strs:
            if name == 'creat' or re.search(r'O_WRONLY|O_RDWR|O_CREAT|O_TRUNC|O_APPEND', args):
                acts.append(('write', ab(strs[0])))
        elif name in ('unlink', 'unlinkat', 'rmdir') and strs:
            acts.append(('delete', ab(strs[0])))
        elif name in ('rename', 'renameat', 'renameat2') and len(strs) >= 2:
            acts.append(('delete', ab(strs[0])))
            acts.append(('write', ab(strs[1])))
        elif name in ('mkdir', 'mkdirat', 'symlink', 'symlinkat', 'link', 'linkat', 'truncate', 'mknod', 'mknodat') and strs:
            acts.append(('write', ab(strs[-1])))
        elif name in ('chmod', 'fchmodat', 'chown', 'lchown', 'utimensat', 'utime', 'utimes') and strs:
            acts.append(('meta', ab(strs[0])))
    return acts


PATHFORMS = ['bare', 'dot', 'sub', 'subslash', 'dotdot', 'abs', 'noext', 'dots', 'abs-sub', 'trail', 'longdir', 'abs-longdir', 'dotdir-noext']
LONGDIR = 'sub/' + 'L' * 140 + '.d/' + 'M' * 150   # directory part longer than NAME_MAX (255) bytes, far below PATH_MAX
CWDFORMS = ['out', 'root', 'elsewhere']
OPTS = [[], ['-c'], ['-f', '1'], ['-c', '-f', '2', '-t', '3'], ['-p', '-g'], ['-m', '-c'], ['-d', 'gnu-ld'], ['-d', 'gnu-ld', '-c', '-f', '1'],
        ['-r', 'REF', '-f', '1'], ['-r', 'REF', '-c', '-f', '3', '-t', '2'], ['-r', 'REF'], ['-f', '100'], ['-c', '-t', '8', '-f', '1'],
        # every option on its own and in pairs WITHOUT -c: nothing may be deleted
        ['-m'], ['-p'], ['-g'], ['-t', '4'], ['-m', '-f', '2'], ['-m', '-g', '-p'], ['-g', '-t', '2', '-f', '1'], ['-d', 'gnu-ld', '-m'], ['-m', '-r', 'REF', '-f', '2']]


def make_case(rnd, k, root, modules):
    for sub in ('in', 'out', 'out/sub', 'elsewhere', 'out/sub/deeper'):
        os.makedirs(os.path.join(root, sub), exist_ok=True)
    name, mb = modules[k % len(modules)]
    rname, rb = modules[(k // 3 + 1) % len(modules)]
    open(os.path.join(root, 'in', name + '.wasm'), 'wb').write(mb)
    open(os.path.join(root, 'in', 'ref_' + rname + '.wasm'), 'wb').write(rb)
    pf = PATHFORMS[k % len(PATHFORMS)]
    cf = CWDFORMS[(k // len(PATHFORMS)) % len(CWDFORMS)]
    opts = OPTS[(k // 7) % len(OPTS)]
    cwd = {'out': os.path.join(root, 'out'), 'root': root, 'elsewhere': os.path.join(root, 'elsewhere')}[cf]
    outdir_rel = {'bare': '', 'dot': '.', 'sub': 'sub', 'subslash': 'sub/', 'dotdot': '../out', 'abs': None, 'noext': '', 'dots': 'sub',
                  'abs-sub': None, 'trail': 'sub', 'longdir': LONGDIR, 'abs-longdir': None, 'dotdir-noext': 'sub/rel.1.2'}[pf]
    base = {'bare': 'prog.c', 'dot': 'x.c', 'sub': 'y.c', 'subslash': 'z.c', 'dotdot': 'w.c', 'abs': 'a.c', 'noext': 'noext', 'dots': 'a.b.c',
            'abs-sub': 'q.c', 'trail': 't.c', 'longdir': 'v.c', 'abs-longdir': 'u.c', 'dotdir-noext': 'module'}[pf]
    os.makedirs(os.path.join(root, 'out', LONGDIR), exist_ok=True)
    os.makedirs(os.path.join(root, 'out', 'sub', 'rel.1.2'), exist_ok=True)
    # target directory (absolute) when cwd == out; for other cwds the relative forms resolve against that cwd
    if pf == 'abs':
        target_dir = os.path.join(root, 'out')
        outarg = os.path.join(target_dir, base)
    elif pf == 'abs-sub':
        target_dir = os.path.join(root, 'out', 'sub')
        outarg = os.path.join(target_dir, base)
    elif pf == 'abs-longdir':
        target_dir = os.path.join(root, 'out', LONGDIR)
        outarg = os.path.join(target_dir, base)
    else:
        if cf == 'root':
            prefix = 'out'
        elif cf == 'elsewhere':
            prefix = '../out'
        else:
            prefix = ''
        rel = outdir_rel
        if pf == 'dotdot':
            rel = '../out' if cf == 'out' else ('out/../out' if cf == 'root' else '../out/../out')
            prefix = ''
        parts = [x for x in (prefix, rel) if x not in ('',)]
        d = '/'.join(parts) if parts else ''
        if pf == 'subslash':
            outarg = (d.rstrip('/') + '//' + base) if d else base
        elif pf == 'trail':
            outarg = (d + '/' + base + '/') if d else base + '/'
        elif pf == 'dot' and not prefix:
            outarg = './' + base
        else:
            outarg = (d + '/' + base) if d else base
        target_dir = os.path.normpath(os.path.join(cwd, d)) if d else cwd
    # decoys: in target dir, its parent, cwd, in/, elsewhere/
    decoy_dirs = {target_dir, os.path.dirname(target_dir), cwd, os.path.join(root, 'in'), os.path.join(root, 'elsewhere'),
                  os.path.join(root, 'out', 'sub', 'deeper')}
    chosen = rnd.sample(NEAR, 14) + rnd.sample(EXACT, 3)
    for dd in decoy_dirs:
        for n in chosen:
            p = os.path.join(dd, n)
            if not os.path.exists(p):
                with open(p, 'w') as f:
                    f.write('decoy %s\n' % n)
        # a file named exactly like the external data-segment blob (another module's, or a user's): only a run in an external
        # data-segment mode may (over)write it, and only in the output directory; nobody may delete it
        if k % 2 == 0:
            pds = os.path.join(dd, 'datasegments')
            if not os.path.lexists(pds):
                with open(pds, 'w') as f:
                    f.write('blob of another module\n')
        # a non-empty directory with a near-miss name and a symlink with a near-miss name
        nd = os.path.join(dd, 's00000000000.c.d')
        os.makedirs(nd, exist_ok=True)
        open(os.path.join(nd, 'keep'), 'w').write('x')
        lk = os.path.join(dd, 'x0000000007.c')
        if not os.path.lexists(lk):
            os.symlink(os.path.join(root, 'elsewhere', 'main.c'), lk)
    # the output path resolved a SECOND time from inside the output directory (a relative path used again after the translator has
    # changed into that directory) must not be touched either: put files there
    rel_dir = os.path.dirname(outarg.rstrip('/')) if not os.path.isabs(outarg) else ''
    if rel_dir not in ('', '.'):
        nested = os.path.normpath(os.path.join(target_dir, rel_dir))
        if nested.startswith(root + os.sep) and len(nested) < 3000:
            os.makedirs(nested, exist_ok=True)
            for n in (base, header_name(base), 's0000000000.c'):
                pth = os.path.join(nested, n)
                if not os.path.lexists(pth):
                    with open(pth, 'w') as f:
                        f.write('nested decoy %s\n' % n)
    ropts = [os.path.join(root, 'in', 'ref_' + rname + '.wasm') if o == 'REF' else o for o in opts]
    return dict(pf=pf, cf=cf, opts=opts, ropts=ropts, cwd=cwd, outarg=outarg, target_dir=target_dir, base=base,
                module=os.path.join(root, 'in', name + '.wasm'), decoys=tuple(sorted(chosen)), may_fail=name.startswith('fail') or (rname.startswith('fail') and 'REF' in opts))


def header_name(base):
    i = base.rfind('.')
    return (base[:i] if i >= 0 else base) + '.h'


def main(chk):
    quick = chk.tier == 'quick'
    w2c2 = env.build_translator('plain', guard=False)
    # the other supported build configurations of the translator parse their command line and walk the output directory with their own
    # code (bundled getopt / dirname / glob replacements, no worker threads): every fourth case runs one of them
    alt = [env.build_translator('plain', defs=['-DHAS_PTHREAD=0', '-DHAS_UNISTD=1', '-DHAS_GETOPT=1', '-DHAS_LIBGEN=1', '-DHAS_STRDUP=1', '-DHAS_GLOB=1'], tag='c20-nopthread'),
           env.build_translator('plain', defs=['-DHAS_PTHREAD=1', '-DHAS_UNISTD=1', '-DHAS_GETOPT=0', '-DHAS_LIBGEN=0', '-DHAS_STRDUP=0', '-DHAS_GLOB=1'], tag='c20-bundled')]
    rnd = env.rng('c20')
    modules = []
    for cls, m in [('fac', None), ('coremark', None)]:
        modules.append((cls, open(os.path.join(env.VERIF, 'corpus', 'examples', cls + '.wasm'), 'rb').read()))
    modules.append(('manyf', hostile.many_funcs(23, 'some').encode()))
    modules.append(('data', hostile.big_data(300, 3).encode()))
    modules.append(('empty', wasm.Module().encode()))
    c = gen.build_program_module(env.rng('c20-gen'), gen.Profile(), n_funcs=6)
    modules.append(('genprog', c.mod.encode()))
    # inputs on which the translation FAILS after it has started writing (an instruction outside the supported feature set in the
    # last function) or before (truncated file): a failing run must respect the same footprint rules
    fm = wasm.Module()
    for i in range(3):
        fm.add_func([], [wasm.I32], [], [('i32.const', i)], export='ok%d' % i)
    fm.funcs.append(wasm.Func(fm.add_type([], [wasm.I32]), raw=b'\x00\xd0\x70\xd1\x0b'))   # ref.null func ; ref.is_null
    modules.append(('fail-unsupported', fm.encode()))
    modules.append(('fail-truncated', modules[1][1][:len(modules[1][1]) // 2]))
    ncases = 300 if quick else 5000
    base_root = env.subdir('c20')

    def one(k):
        r0 = env.rng('c20', k)
        root = os.path.join(base_root, 'case%d' % k)
        os.makedirs(root)
        cs = make_case(r0, k, root, modules)
        before = snapshot(root)
        log = os.path.join(base_root, 'strace%d.log' % k)
        exe = w2c2 if k % 4 else alt[(k // 4) % 2]
        if exe is alt[0] and '-t' in cs['ropts']:
            # the build without threads has no -t option
            i = cs['ropts'].index('-t')
            cs['ropts'] = cs['ropts'][:i] + cs['ropts'][i + 2:]
        r = env.run(['strace', '-f', '-qq', '-e', 'trace=%file', '-o', log, exe] + cs['ropts'] + [cs['module'], cs['outarg']],
                    cwd=cs['cwd'], timeout=120)
        after = snapshot(root)
        st = open(log, errors='replace').read() if os.path.exists(log) else ''
        os.remove(log) if os.path.exists(log) else None
        shutil.rmtree(root, ignore_errors=True)
        return k, cs, root, before, after, st, r

    for k, cs, root, before, after, st, r in env.pmap(one, range(ncases)):
        chk.ev()
        chk.distinct((cs['pf'], cs['cf'], tuple(cs['opts']), cs['decoys']))
        chk.observe('pathform_' + cs['pf'])
        chk.observe('cwd_' + cs['cf'])
        for o in cs['opts']:
            if o.startswith('-'):
                chk.observe('opt_' + o)
        desc = 'cwd=%s output=%s options=%s' % (cs['cf'], cs['outarg'].replace(root, '<root>'), ' '.join(cs['opts']))
        files = {'case.txt': desc + '\nmodule=%s\n' % os.path.basename(cs['module']), 'strace.txt': st[-20000:], 'stderr.txt': r.err[-3000:]}
        failed_run = False
        if r.rc != 0 or r.timeout:
            if cs['may_fail'] and not r.timeout and r.rc > 0:
                # a module the translator cannot translate: the run may fail, but what it touched on the way is judged all the same
                failed_run = True
                chk.observe('failing_runs_judged')
            else:
                chk.violation('C20:exit:%s:%s' % (r.rc, cs['pf']), 'translator failed (%s): %s' % (desc, r.err[-400:]), files)
                continue
        tdir = os.path.relpath(cs['target_dir'], root)
        external = '-d' in cs['opts']
        clean = '-c' in cs['opts']

        def allowed_create(rel):
            d, n = os.path.split(rel)
            if os.path.normpath(d or '.') != os.path.normpath(tdir):
                return False
            return n == cs['base'] or n == header_name(cs['base']) or PATTERN.match(n) is not None or (external and n == 'datasegments')

        created = [p for p in after if p not in before]
        deleted = [p for p in before if p not in after]
        changed = [p for p in after if p in before and after[p] != before[p]]
        for p in created + changed:
            if not allowed_create(p):
                cls_ = 'in-dir' if os.path.normpath(os.path.dirname(p) or '.') == os.path.normpath(tdir) else 'other-dir'
                chk.violation('C20:created:%s:%s' % (cls_, re.sub(r'\d', '0', os.path.basename(p))[:24]),
                              'created/overwrote %s (%s)' % (p, desc), files)
        for p in deleted:
            d, n = os.path.split(p)
            ok = clean and os.path.normpath(d or '.') == os.path.normpath(tdir) and PATTERN.match(n)
            # without -c a pre-existing exact-pattern file may be overwritten (it then shows as "changed"), never deleted
            if not ok:
                chk.violation('C20:deleted:%s' % re.sub(r'\d', '0', n)[:24], 'deleted %s (%s)' % (p, desc), files)
        rel_out = os.path.normpath(os.path.join(tdir, cs['base']))
        if failed_run:
            continue
        if rel_out not in after or after[rel_out][0] != 'file':
            near = [p for p in created if os.path.dirname(p) == os.path.dirname(rel_out)]
            chk.violation('C20:misnamed-output:%s' % cs['pf'], 'requested output %s does not exist after the run; created: %s (%s)' % (rel_out, near[:4], desc), files)
        hdr = os.path.normpath(os.path.join(tdir, header_name(cs['base'])))
        if hdr not in after:
            chk.violation('C20:missing-header:%s' % cs['pf'], 'header %s not created (%s)' % (hdr, desc), files)
        # strace: anything written or deleted outside the sandbox, or inside but not allowed
        for act, p in parse_strace(st, cs['cwd']):
            if p.startswith('/dev/') or p.startswith('/proc/'):
                continue
            if not p.startswith(root + os.sep):
                if act in ('write', 'delete', 'meta'):
                    chk.violation('C20:outside-sandbox:%s' % act, '%s of %s outside the sandbox (%s)' % (act, p, desc), files)
                continue
            rel = os.path.relpath(p, root)
            if act == 'write' and not allowed_create(rel):
                chk.violation('C20:strace-write:%s' % re.sub(r'\d', '0', os.path.basename(rel))[:24], 'opened %s for writing (%s)' % (rel, desc), files)
            if act == 'delete':
                d, n = os.path.split(rel)
                if not (clean and os.path.normpath(d or '.') == os.path.normpath(tdir) and PATTERN.match(n)):
                    chk.violation('C20:strace-delete:%s' % re.sub(r'\d', '0', n)[:24], 'unlinked %s (%s)' % (rel, desc), files)
        chk.observe('files_created', len(created))
        chk.observe('files_deleted_by_clean', len(deleted))
        chk.observe('files_overwritten', len(changed))
        if k < 3:
            chk.sample({'case': desc, 'created': sorted(created)[:6], 'deleted': sorted(deleted)[:6]})
    chk.assume('strace -f sees every file syscall of the translator and its threads; decoy directories/symlinks with exactly matching names are not generated (not stated by the property)')


def replay(chk, path):
    print(open(os.path.join(path, 'case.txt')).read())
    chk.ev(2)
    chk.distinct(1)
    chk.distinct(2)
