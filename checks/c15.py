"""C15 WASI process services: args, environment, clocks, randomness, exit, thread spawn.

Every scenario runs in its own driver process (descriptor table and thread-id counter are process-global).
 * args/environ: generated vectors (0..200 strings, lengths 0..8 KB, every byte value but NUL); sizes must equal the harness's
   own count and sum(len+1); after *_get every pointer-array entry must point at a NUL-terminated copy of its string inside
   [buf, buf+size) and nothing outside the two regions may change (whole-memory comparison); placements incl. end of memory.
 * clocks: ids 0..3 succeed, realtime/monotonic results are bracketed by the driver's own clock_gettime, 4 threads x 25 000 reads
   are non-decreasing per thread; unknown ids give EINVAL.
 * random_get: lengths 0..2^20 succeed, keep sentinels on both sides intact and overwrite 0x00- and 0xFF-prefilled buffers.
 * proc_exit(s): the process exit status is s.
 * thread-spawn: S host threads issue K spawns each on a shared-memory module whose wasi_thread_start appends (tid,arg) to a log:
   ids positive and pairwise distinct, log multiset == returned/sent multiset (exactly once), log visible in the parent's memory;
   without the export the result is negative. Repeated under TSan with a yield hook after id allocation.
"""
import os, shutil
from vlib import env, e2e, wasm, wasih, san
from vlib.wasih import WASI_NUM
from vlib.wasm import Module, I32, I64, F32, F64

LEVEL = 'exploration'
RULE = ('one scenario per driver process; evaluation = one checked service call (or one spawned thread); distinct = distinct (service, '
        'shape class: vector size/length class/placement, clock id, length, status, spawners x spawns)')

PAGES = 24
MEMSZ = PAGES * 65536
SAN = ['-O1', '-g', '-fno-omit-frame-pointer', '-fsanitize=address,undefined', '-fno-sanitize-recover=all']


def gen_vector(r):
    n = r.choice([0, 1, 2, 3, 10, 50, 200, r.randint(0, 40)])
    out = []
    budget = 120000
    for i in range(n):
        L = r.choice([0, 1, 2, 10, 100, 1000, 8192]) if r.random() < 0.3 else r.randint(0, 60)
        L = min(L, budget)
        budget -= L + 1
        s = bytes(r.randint(1, 255) for _ in range(L))
        out.append(s)
    return out


def vec_scenario(k, plan, exe, root, which):
    r = env.rng('c15-vec', which, k)
    d = os.path.join(root, '%s%d' % (which, k))
    os.makedirs(d)
    vec = gen_vector(r)
    other = gen_vector(r)[:5]
    if which == 'environ':
        vec = [v.replace(b'=', b'-') for v in vec]
        # entries as real environments contain them, incl. the shapes a shell or cmd.exe passes on: no '=', several '=', an empty name,
        # hidden per-drive entries ("=C:=C:\\dir"), an empty value
        odd = [b'=C:=C:\\dir', b'=', b'=x', b'NOEQ', b'A=B=C', b'=::=::\\', b'EMPTY=', b'=D:=D:\\', b'PATH=/usr/bin:/bin', b'=ExitCode=00000000']
        for o in r.sample(odd, r.randint(0, 4)):
            vec.insert(r.randint(0, len(vec)), o)
    g = wasih.Guest(plan, 4096)
    args, envs = (vec, other) if which == 'args' else (other, vec)
    g.instantiate(args=args, envs=envs)
    abi = r.choice(['p1', 'un'])
    total = sum(len(s) + 1 for s in vec)
    n = len(vec)
    # sentinel fill of the whole memory in chunks
    fill = bytes(r.getrandbits(8) for _ in range(4096))
    for a in range(0, MEMSZ, 65536):
        g.emit('P 0 0 %d %s' % (a, (fill * 16).hex()), 'poke')
    cnt_ptr = r.choice([16, 4096, MEMSZ - 8])
    size_ptr = cnt_ptr + 4
    i_sizes = g.call('%s_sizes_get' % which, [cnt_ptr, size_ptr], abi=abi)
    d_sizes = g.dump(cnt_ptr, 8)
    placement = r.choice(['low', 'mid', 'end', 'end-ptrs', 'flush-ptrs', 'flush-both'])
    if placement == 'low':
        ptrs, buf = 0x200, 0x200 + 4 * n + r.randint(0, 64)
    elif placement == 'mid':
        buf = 300000 + r.randint(0, 100)
        ptrs = buf + total + r.randint(0, 40)
        ptrs = (ptrs + 3) // 4 * 4
    elif placement == 'end':
        buf = MEMSZ - total
        ptrs = 0x400
    elif placement == 'end-ptrs':
        ptrs = MEMSZ - 4 * n - 8 if n else MEMSZ - 8
        ptrs = ptrs // 4 * 4
        buf = 0x10000
    elif placement == 'flush-ptrs':
        # the pointer array ends exactly at the last byte of the memory
        ptrs = MEMSZ - 4 * n if n else MEMSZ - 4
        buf = 0x10000
    else:
        # strings first, array last, both flush against the end (the array may be unaligned)
        ptrs = MEMSZ - 4 * n if n else MEMSZ - 4
        buf = ptrs - total
    i_get = g.call('%s_get' % which, [ptrs, buf], abi=abi)
    d_all = g.emit('w 0 0 0 %d' % MEMSZ, 'dump')
    script = g.script()
    rr, out = wasih.run_script(exe, d, script)
    res = []
    err = rr.err.decode('latin-1')
    files = {'script.txt': script[:200000], 'stderr.txt': err[-5000:]}
    cls = (which, abi, 'n=%d' % (n if n < 4 else 10 if n < 20 else 50 if n < 100 else 200), placement, 'max%d' % max([len(s) for s in vec] + [0]))
    reps = san.parse(err)
    if reps:
        res.append(('C15:%s:%s' % (which, reps[0][0]), '%s scenario %d: %s' % (which, k, reps[0][1]), files))
    elif rr.rc != 0 or len(out) <= d_all:
        res.append(('C15:%s:crash' % which, '%s scenario %d: driver exit %s %s' % (which, k, rr.rc, err[-300:]), files))
    else:
        if wasih.call_result(out[i_sizes]) != 0 or wasih.call_result(out[i_get]) != 0:
            res.append(('C15:%s:errno' % which, '%s scenario %d: sizes_get/get returned %s/%s' % (which, k, out[i_sizes][-12:], out[i_get][-12:]), files))
        raw = bytes.fromhex(out[d_sizes].split(' ')[3])
        gn, gt = int.from_bytes(raw[:4], 'little'), int.from_bytes(raw[4:], 'little')
        if (gn, gt) != (n, total):
            res.append(('C15:%s:sizes' % which, '%s scenario %d: sizes_get reports count %d size %d, given %d strings totalling %d' % (which, k, gn, gt, n, total), files))
        mem = bytearray(bytes.fromhex(out[d_all].split(' ')[3]))
        base = bytearray((fill * 16) * PAGES)
        base[cnt_ptr:cnt_ptr + 8] = raw
        # check pointer array and strings, then blank the two regions in both images and compare the rest
        okp = True
        for i, sv in enumerate(vec):
            p = int.from_bytes(mem[ptrs + 4 * i:ptrs + 4 * i + 4], 'little')
            if not (buf <= p and p + len(sv) + 1 <= buf + total) or bytes(mem[p:p + len(sv) + 1]) != sv + b'\0':
                res.append(('C15:%s:string' % which, '%s scenario %d: entry %d points to %#x (region [%#x,%#x)) holding %r..., expected %r...' % (
                    which, k, i, p, buf, buf + total, bytes(mem[p:p + 12]) if p + 12 < len(mem) else b'', sv[:12]), files))
                okp = False
                break
        for img in (mem, base):
            img[ptrs:ptrs + 4 * n] = b'\0' * (4 * n)
            img[buf:buf + total] = b'\0' * total
        if okp and mem != base:
            first = next(i for i in range(len(mem)) if mem[i] != base[i])
            res.append(('C15:%s:stray-write' % which, '%s scenario %d: guest memory changed outside the pointer array and string buffer, first at %#x' % (which, k, first), files))
    shutil.rmtree(d, ignore_errors=True)
    return res, [cls], n + 2


def clock_scenario(k, plan, exe, root):
    r = env.rng('c15-clock', k)
    d = os.path.join(root, 'clk%d' % k)
    os.makedirs(d)
    g = wasih.Guest(plan, 4096)
    g.instantiate()
    abi = r.choice(['p1', 'un'])
    checks = []
    # another thread consumes CPU time first: from then on the process CPU clock is well ahead of the calling thread's CPU clock
    g.emit('B %d' % r.choice([25, 40]), 'burn')
    for cid in (0, 1, 2, 3, 3, 2):
        c0 = g.emit('C %d' % cid, 'hostclock')
        g.poke(0x300, b'\0' * 8)
        ic = g.call('clock_time_get', [cid, r.choice([0, 1, 1000, 10**9]), 0x300], abi=abi)
        dc = g.dump(0x300, 8)
        c1 = g.emit('C %d' % cid, 'hostclock')
        checks.append(('bracket', cid, c0, ic, dc, c1))
    for cid in [4, 5, 1 << 31, 0xffffffff, r.randint(6, 1 << 30)]:
        ic = g.call('clock_time_get', [cid, 0, 0x300], abi=abi)
        checks.append(('einval', cid, None, ic, None, None))
    q = g.emit('Q 0 %d 1 %d 4 %d' % (plan.fk('%s_clock_time_get' % abi), 25000 if k % 4 == 0 else 2000, 0x800), 'Q')
    q0 = g.emit('Q 0 %d 0 %d 2 %d' % (plan.fk('%s_clock_time_get' % abi), 2000, 0x800), 'Q')
    script = g.script()
    rr, out = wasih.run_script(exe, d, script)
    res = []
    err = rr.err.decode('latin-1')
    files = {'script.txt': script, 'stderr.txt': err[-4000:], 'log.txt': '\n'.join(out)}
    classes = []
    n = 0
    if san.parse(err) or rr.rc != 0 or len(out) <= q0:
        res.append(('C15:clock:crash', 'clock scenario %d: rc %s %s' % (k, rr.rc, err[-300:]), files))
    else:
        for kind, cid, c0, ic, dc, c1 in checks:
            rc = wasih.call_result(out[ic])
            n += 1
            classes.append(('clock', abi, kind, cid if cid < 6 else 'big'))
            if kind == 'einval':
                if rc != WASI_NUM['inval']:
                    res.append(('C15:clock:unknown-id', 'clock_time_get(id=%#x) returned %s, expected EINVAL (28)' % (cid, rc), files))
                continue
            if rc != 0:
                res.append(('C15:clock:errno:id%d' % cid, 'clock_time_get(id=%d) returned %s' % (cid, rc), files))
                continue
            v = int.from_bytes(bytes.fromhex(out[dc].split(' ')[3]), 'little')
            if kind == 'bracket':
                lo, hi = int(out[c0].split(' ')[2]), int(out[c1].split(' ')[2])
                if not (lo <= v <= hi):
                    res.append(('C15:clock:bracket:id%d' % cid, 'clock_time_get(id=%d) = %d ns is outside the driver\'s own readings [%d, %d]' % (cid, v, lo, hi), files))
        for qi, nm in ((q, 'monotonic'), (q0, 'realtime')):
            kv = dict(x.split('=') for x in out[qi].split(' ')[2:])
            n += int(kv['reads'])
            classes.append(('clock-stress', nm, int(kv['reads'])))
            if int(kv['bad']) != 0:
                res.append(('C15:clock:%s-stress' % nm, 'threaded reads: %s' % out[qi], files))
    shutil.rmtree(d, ignore_errors=True)
    return res, classes, n


def random_scenario(k, plan, exe, root):
    r = env.rng('c15-rand', k)
    d = os.path.join(root, 'rnd%d' % k)
    os.makedirs(d)
    g = wasih.Guest(plan, 4096)
    g.instantiate()
    abi = r.choice(['p1', 'un'])
    lens = [0, 1, 2, 31, 32, 255, 256, 257, 511, 512, 513, 4096, 65535, 65536, 1 << 20]
    L = lens[k % len(lens)] if k < 3 * len(lens) else r.randint(0, 70000)
    base = r.choice([0x1000, 0x10001, MEMSZ - L - 16])
    checks = []
    for pre in (0x00, 0xff):
        fillb = bytes([pre])
        # prefill region and 16-byte guards with chunks
        reg = b'\x5c' * 16 + fillb * L + b'\xc5' * 16
        for off in range(0, len(reg), 60000):
            g.emit('P 0 0 %d %s' % (base - 16 + off, reg[off:off + 60000].hex()), 'poke')
        ic = g.call('random_get', [base, L], abi=abi)
        dd = g.emit('w 0 0 %d %d' % (base - 16, L + 32), 'dump')
        checks.append((pre, ic, dd))
    script = g.script()
    rr, out = wasih.run_script(exe, d, script)
    res = []
    err = rr.err.decode('latin-1')
    files = {'script.txt': script[:100000], 'stderr.txt': err[-4000:]}
    lc = 'len%d' % L if L in lens else 'random-len'
    reps = san.parse(err)
    if reps:
        res.append(('C15:random_get:' + reps[0][0], 'random_get(len %d): %s' % (L, reps[0][1]), files))
    elif rr.rc != 0 or len(out) <= checks[-1][2]:
        res.append(('C15:random_get:crash', 'random_get(len %d): driver rc %s' % (L, rr.rc), files))
    else:
        for pre, ic, dd in checks:
            rc = wasih.call_result(out[ic])
            if rc != 0:
                res.append(('C15:random_get:errno:%s' % ('len>256' if L > 256 else 'len<=256'), 'random_get(len %d) returned errno %s' % (L, rc), files))
                continue
            raw = bytes.fromhex(out[dd].split(' ')[3])
            if raw[:16] != b'\x5c' * 16 or raw[-16:] != b'\xc5' * 16:
                res.append(('C15:random_get:sentinel', 'random_get(len %d) wrote outside the requested range' % L, files))
            body = raw[16:16 + L]
            if L >= 32 and body == bytes([pre]) * L:
                res.append(('C15:random_get:not-filled', 'random_get(len %d) left a buffer prefilled with %#x unchanged' % (L, pre), files))
            if L >= 64 and body[L // 2:] == bytes([pre]) * (L - L // 2):
                res.append(('C15:random_get:partially-filled', 'random_get(len %d) left the second half of the buffer untouched' % L, files))
    shutil.rmtree(d, ignore_errors=True)
    return res, [('random_get', abi, lc, 'end' if base == MEMSZ - L - 16 else 'low')], 2


def exit_scenario(k, plan, exe, root):
    d = os.path.join(root, 'ex%d' % k)
    os.makedirs(d)
    s = [0, 1, 2, 42, 125, 255, 7, 100][k % 8]
    g = wasih.Guest(plan, 4096)
    g.instantiate()
    abi = ['p1', 'un'][(k // 8) % 2]         # independent of the status rotation: both ABI entry points see every status
    g.call('proc_exit', [s], abi=abi)
    g.emit('t', 'after')  # must never be reached
    rr, out = wasih.run_script(exe, d, g.script())
    res = []
    if rr.rc != s or any(' t ' in l for l in out[-1:]):
        res.append(('C15:proc_exit:status', 'proc_exit(%d) (%s): process exit status %s, log tail %s' % (s, abi, rr.rc, out[-1:]), {'script.txt': g.script(), 'stderr.txt': rr.err.decode('latin-1')[-2000:]}))
    shutil.rmtree(d, ignore_errors=True)
    return res, [('proc_exit', abi, s)], 1


def spawn_scenario(k, plan, exe, root, tag, envx=None, fail_permille=0):
    r = env.rng('c15-spawn', tag, k)
    d = os.path.join(root, 'sp%s%d' % (tag, k))
    os.makedirs(d)
    S = r.choice([1, 2, 4, 8, 16])
    K = r.choice([1, 2, 5, 10, 20])
    g = wasih.Guest(plan, 4096)
    g.instantiate()
    g.poke(wasih.LOGCNT, b'\0' * 8)
    ix = g.emit('X 0 %d %d %d %d %d' % (plan.fk('thread_spawn'), S, K, wasih.DONECNT, fail_permille), 'X')
    dl = g.dump(wasih.LOGBASE, 8 * S * K + 16)
    dc = g.dump(wasih.LOGCNT, 8)
    rr, out = wasih.run_script(exe, d, g.script(), env_extra=envx, timeout=180)
    res = []
    err = rr.err.decode('latin-1')
    files = {'script.txt': g.script(), 'stderr.txt': err[-8000:], 'log.txt': '\n'.join(out)[:20000]}
    tr = san.parse_tsan(err, env.REPO)
    reps = san.parse(err)
    if tr:
        for t in tr[:2]:
            res.append(('C15:thread-spawn:' + t['key'], 'TSan during %dx%d spawns: %s' % (S, K, t['text'][:500]), files))
    elif reps and not reps[0][0].startswith('tsan'):
        res.append(('C15:thread-spawn:' + reps[0][0], 'spawn scenario: %s' % reps[0][1], files))
    elif rr.timeout or rr.rc != 0 or len(out) <= dc:
        res.append(('C15:thread-spawn:crash', 'spawn scenario %dx%d: rc %s timeout %s %s' % (S, K, rr.rc, rr.timeout, err[-300:]), files))
    else:
        toks = out[ix].split(' ')
        injected = int(toks[4].split('=')[1])
        pairs = [tuple(int(x) for x in t.split(':')) for t in toks[5:]]
        ids = [p[0] for p in pairs]
        okids = [i for i in ids if 0 < i < (1 << 31)]
        # without injected faults every spawn must succeed; with them exactly the spawns whose host thread creation failed must fail
        if len(ids) - len(okids) != injected:
            res.append(('C15:thread-spawn:negative-id' if not fail_permille else 'C15:thread-spawn:fault:failure-count',
                        '%d of %d spawns returned a non-positive id, %d host thread creations were made to fail' % (len(ids) - len(okids), len(ids), injected), files))
        if len(set(okids)) != len(okids):
            dup = sorted(i for i in set(okids) if okids.count(i) > 1)[:4]
            res.append(('C15:thread-spawn:duplicate-id', 'thread ids not pairwise distinct: %s' % dup, files))
        raw = bytes.fromhex(out[dl].split(' ')[3])
        cnts = bytes.fromhex(out[dc].split(' ')[3])
        logcnt, done = int.from_bytes(cnts[:4], 'little'), int.from_bytes(cnts[4:], 'little')
        log = sorted((int.from_bytes(raw[8 * i:8 * i + 4], 'little'), int.from_bytes(raw[8 * i + 4:8 * i + 8], 'little')) for i in range(min(logcnt, S * K + 2)))
        want = sorted((i, a) for i, a in pairs if 0 < i < (1 << 31))
        if log != want or logcnt != len(want) or done != len(want):
            miss = [p for p in want if p not in log][:3]
            extra = [p for p in log if p not in want or log.count(p) > want.count(p)][:3]
            res.append(('C15:thread-spawn:exactly-once', '%dx%d spawns: wasi_thread_start log has %d entries (done counter %d) for %d successful spawns; missing %s extra/duplicated %s' % (
                S, K, logcnt, done, len(want), miss, extra), files))
    shutil.rmtree(d, ignore_errors=True)
    return res, [('thread-spawn', tag + ('+faults' if fail_permille else ''), S, K)], S * K


MARK_START = 0x57A27
DECOY_NAMES = ['wasi_thread_star', 'wasi_thread_start2', 'xwasi_thread_start', 'wasi_thread_start_', 'WASI_THREAD_START', 'wasi-thread-start', 'e%d', 'start']


def multi_module_build(w2c2, root, si):
    """Three modules for one process (ma, mb, mc; -m): wasi_thread_start sits at different export positions in ma and mb and is
    missing in mc; all other (i32,i32)->() exports are decoys with similar names."""
    r = env.rng('c15-multi', si)
    d = os.path.join(root, 'multi%d' % si)
    os.makedirs(d)
    srcs = []
    shapes = {}
    nexp = {x: r.randint(2, 7) for x in 'abc'}
    pos = {'a': r.randrange(nexp['a']), 'c': None}
    pos['b'] = r.choice([p for p in range(nexp['b']) if p != pos['a']] or [0])
    if r.random() < 0.5:
        nexp['c'] = max(nexp['c'], max(pos['a'], pos['b']) + 1)  # the position that holds the start function elsewhere exists in mc too
    for x in 'abc':
        m = Module()
        spawn = m.import_func('wasi', 'thread-spawn', [I32], [I32])
        m.mems.append((1, 1, True))
        used = set()
        entries = []
        for i in range(nexp[x]):
            if pos[x] == i:
                nm, marker = 'wasi_thread_start', MARK_START
            else:
                nm = r.choice(DECOY_NAMES)
                nm = nm % i if '%d' in nm else nm
                while nm in used:
                    nm += 'x'
                marker = 0xDEC000 + i
            used.add(nm)
            body = [('i32.const', wasih.LOGCNT), ('i32.const', 1), ('i32.atomic.rmw.add', 2, 0), ('i32.const', 12), ('i32.mul',), ('local.set', 2),
                    ('local.get', 2), ('i32.const', marker), ('i32.atomic.store', 2, wasih.LOGBASE),
                    ('local.get', 2), ('local.get', 0), ('i32.atomic.store', 2, wasih.LOGBASE + 4),
                    ('local.get', 2), ('local.get', 1), ('i32.atomic.store', 2, wasih.LOGBASE + 8)]
            entries.append((nm, body))
        where_spawn = r.randrange(len(entries) + 1)
        where_mem = r.randrange(len(entries) + 1)
        for i, (nm, body) in enumerate(entries):
            if i == where_spawn:
                m.add_func([I32], [I32], [], [('local.get', 0), ('call', spawn)], export='spawn')
            if i == where_mem:
                m.exports.append(('memory', 'memory', 0))
            m.add_func([I32, I32], [], [(1, I32)], body, export=nm)
        if where_spawn == len(entries):
            m.add_func([I32], [I32], [], [('local.get', 0), ('call', spawn)], export='spawn')
        if where_mem == len(entries):
            m.exports.append(('memory', 'memory', 0))
        b = m.encode()
        t = e2e.translate(w2c2, b, d, 'm' + x, ['-m'])
        if t.rc != 0:
            raise env.HarnessError('multi-module spawn: translation failed: %s' % t.err[-400:])
        srcs.append(os.path.join(d, 'm%s.c' % x))
        shapes[x] = dict(pos=pos[x], exports=[e[0] for e in entries], wasm=b)
    exe = os.path.join(d, 'spawn_multi')
    futex = [os.path.join(env.REPO, 'futex', f) for f in ('futex.c', 'list.c', 'map.c')]
    rr = env.run(['gcc'] + SAN + ['-w'] + env.WASI_DEFS + ['-DWASM_THREADS_PTHREADS', '-I', e2e.base_include(), '-I', os.path.join(env.REPO, 'wasi'),
                 '-I', os.path.join(env.REPO, 'futex'), '-I', d] + srcs + [os.path.join(env.VERIF, 'harness', 'spawn_multi.c'), os.path.join(env.REPO, 'wasi', 'wasi.c')] + futex +
                 ['-o', exe, '-lpthread', '-lm'], cwd=d, timeout=600)
    if rr.rc != 0:
        return None, shapes, rr.err[-2500:]
    return exe, shapes, ''


def multi_module_scenario(si, k, exe, shapes):
    r = env.rng('c15-multi-seq', si, k)
    seq = [(r.choice('abc'), r.randint(1, 1 << 30)) for _ in range(r.randint(2, 7))]
    if k % 3 == 0:
        seq = [(r.choice('ab'), r.randint(1, 99))] + seq  # a module WITH the start export goes first
    rr = env.run([exe] + ['%s:%d' % (mm, a) for mm, a in seq], env=env.SAN_ENV, timeout=120)
    files = {'cmd.txt': 'spawn_multi ' + ' '.join('%s:%d' % x for x in seq), 'shapes.txt': repr({x: (v['pos'], v['exports']) for x, v in shapes.items()}),
             'stdout.txt': rr.out[-4000:], 'stderr.txt': rr.err[-4000:], 'ma.wasm': shapes['a']['wasm'], 'mb.wasm': shapes['b']['wasm'], 'mc.wasm': shapes['c']['wasm']}
    res = []
    reps = san.parse(rr.err)
    if reps:
        res.append(('C15:thread-spawn:multi-module:' + reps[0][0], 'several modules in one process: %s' % reps[0][1], files))
        return res, [('thread-spawn', 'multi-module')], len(seq)
    if rr.rc != 0 or 'DONE' not in rr.out:
        res.append(('C15:thread-spawn:multi-module:crash', 'several modules in one process: rc %s %s' % (rr.rc, rr.err[-300:]), files))
        return res, [('thread-spawn', 'multi-module')], len(seq)
    S = [l.split() for l in rr.out.splitlines() if l.startswith('S ')]
    L = [l.split() for l in rr.out.splitlines() if l.startswith('L ')]
    want_log = []
    ids = []
    for (mm, a), s_ in zip(seq, S):
        ret = int(s_[3])
        if shapes[mm]['pos'] is None:
            if ret >= 0:
                res.append(('C15:thread-spawn:multi-module:missing-export', 'thread-spawn on module m%s (no wasi_thread_start; other modules in the process have one) returned %d, expected a negative value' % (mm, ret), files))
        else:
            if ret <= 0:
                res.append(('C15:thread-spawn:multi-module:negative-id', 'thread-spawn on module m%s returned %d' % (mm, ret), files))
            else:
                ids.append(ret)
                want_log.append((mm, str(MARK_START), str(ret), str(a)))
    if len(set(ids)) != len(ids):
        res.append(('C15:thread-spawn:multi-module:duplicate-id', 'thread ids not pairwise distinct across modules: %s' % ids, files))
    got = sorted((l[1], l[2], l[3], l[4]) for l in L)
    if got != sorted(want_log):
        res.append(('C15:thread-spawn:multi-module:exactly-once', 'entries logged by the modules\' start/decoy functions %s differ from the expected one wasi_thread_start run per successful spawn %s' % (got[:8], sorted(want_log)[:8]), files))
    return res, [('thread-spawn', 'multi-module', tuple(sorted(set(mm for mm, _ in seq))))], len(seq)


def main(chk):
    quick = chk.tier == 'quick'
    w2c2 = env.build_translator('plain')
    root = env.subdir('c15')
    mod = wasih.trampoline(pages=PAGES)
    exe, plan = wasih.build_driver(w2c2, os.path.join(root, 'build'), mod, SAN)
    smod = wasih.trampoline(shared=True, pages=4)
    sexe, splan = wasih.build_driver(w2c2, os.path.join(root, 'build-shared'), smod, SAN, name='stramp')
    texe, tplan = wasih.build_driver(w2c2, os.path.join(root, 'build-tsan'), smod, ['-O1', '-g', '-fsanitize=thread'], name='stramp', defs=['-DW2C2_VERIF=1'])
    # same driver with the host's thread creation made to fail for a share of the calls (fault injection at the pthread_create boundary)
    fexe, fplan = wasih.build_driver(w2c2, os.path.join(root, 'build-faults'), smod, SAN + ['-Wl,--wrap=pthread_create'], name='stramp', defs=['-DVERIF_WRAP_PTHREAD_CREATE=1'])
    jobs = []
    nv = 120 if quick else 2500
    for k in range(nv):
        jobs.append(lambda k=k: vec_scenario(k, plan, exe, root, 'args'))
        jobs.append(lambda k=k: vec_scenario(k, plan, exe, root, 'environ'))
    for k in range(40 if quick else 400):
        jobs.append(lambda k=k: clock_scenario(k, plan, exe, root))
    for k in range(90 if quick else 1500):
        jobs.append(lambda k=k: random_scenario(k, plan, exe, root))
    for k in range(16 if quick else 64):
        jobs.append(lambda k=k: exit_scenario(k, plan, exe, root))
    for k in range(60 if quick else 1500):
        jobs.append(lambda k=k: spawn_scenario(k, splan, sexe, root, 'asan'))
    for k in range(60 if quick else 1500):
        jobs.append(lambda k=k: spawn_scenario(k, tplan, texe, root, 'tsan', envx={'TSAN_OPTIONS': 'halt_on_error=0:exitcode=0:report_thread_leaks=0'}))

    for k in range(40 if quick else 600):
        jobs.append(lambda k=k: spawn_scenario(k, fplan, fexe, root, 'faults', fail_permille=[100, 300, 500, 900][k % 4]))

    # module without wasi_thread_start: negative result
    def no_export():
        d = os.path.join(root, 'noexp')
        os.makedirs(d)
        g = wasih.Guest(plan, 4096)
        g.instantiate()
        i = g.call('x', [7]) if False else g.emit('c 0 %d 0x7' % plan.fk('thread_spawn'), 'call')
        rr, out = wasih.run_script(exe, d, g.script())
        res = []
        v = wasih.call_result(out[i]) if i < len(out) else None
        if not isinstance(v, int) or v < (1 << 31):
            res.append(('C15:thread-spawn:missing-export', 'thread-spawn on a module without wasi_thread_start returned %s, expected a negative value' % v, {'script.txt': g.script()}))
        return res, [('thread-spawn', 'no-export')], 1
    jobs.append(no_export)
    # several modules in one process
    for si in range(3 if quick else 20):
        mexe, shapes, err = multi_module_build(w2c2, root, si)
        if mexe is None:
            chk.violation('C15:thread-spawn:multi-module:build', 'three -m modules + wasi.c do not build: %s' % err, {})
            continue
        for k in range(12 if quick else 60):
            jobs.append(lambda si=si, k=k, mexe=mexe, shapes=shapes: multi_module_scenario(si, k, mexe, shapes))

    for res, classes, n in env.pmap(lambda j: j(), jobs):
        chk.ev(n)
        for c in classes:
            chk.distinct(c)
            chk.observe('service_' + str(c[0]))
        seen = set()
        for key, what, files in res:
            if key not in seen:
                seen.add(key)
                chk.violation(key, what, files)
    chk.sample({'args': 'vector of 0..200 strings placed low/mid/end of a %d-page memory' % PAGES, 'spawn': 'S in {1,2,4,8,16} host threads x K in {1..20} spawns'})
    chk.assume('thread-spawn exactly-once is decided after all spawned threads incremented the done counter (bounded wait 20 s) plus a 20 ms grace period for a duplicate run to show')


def replay(chk, path):
    print(open(os.path.join(path, 'script.txt')).read()[:3000])
    chk.ev(2)
    chk.distinct(1)
    chk.distinct(2)
