"""C08 Translation depends on the decoded module, not on its byte encoding.

For each base module (spec corpus, examples, generated programs) the decoder/encoder produces spec-equivalent
variants: every LEB128 field padded to a random or maximal length, custom sections inserted at every section
boundary, data segments written with flag 0 <-> flag 2 + memory 0, empty sections <-> omitted sections.
Monitors: (1) the translator accepts every variant; (2) the multiset of top-level C definitions (.c and .h) equals
the base translation's; (3) on a sample both are compiled and run on the corpus/generated script with equal output.
A variant V8 rejects is a re-encoder bug (counted, inconclusive above 1 %).
"""
import os, shutil, glob, collections
from vlib import env, e2e, wasm, gen, spec, progs
from vlib.wasm import *

LEVEL = 'exploration'
RULE = ('(base module, variant) pairs; evaluation = one variant translated and compared definition-by-definition with the base; '
        'distinct = distinct (base hash, variant kind, variant bytes hash); non-trivial = variant bytes differ from the base bytes')

PADDABLE = {'secsize', 'count', 'idx', 'funcidx', 'typeidx', 'label', 'align', 'offset', 'i32.const', 'i64.const', 'localcount',
            'limit', 'namelen', 'bodysize', 'memidx', 'subop', 'tableidx'}


def pad_enc(rnd, mode):
    def padfn(kind, maxb):
        if kind not in PADDABLE:
            return 0
        if mode == 'max':
            return maxb
        if mode == 'random':
            return rnd.randint(0, maxb)
        if mode == kind:
            return maxb
        return 0
    return wasm.Enc(padfn)


def customs_everywhere(rnd, m):
    m.customs = [c for c in m.customs]
    # a payload shaped like a name section (function-names subsection naming function 0 and 1): harmless in any custom section
    # that is not THE name section, whatever its name looks like
    shaped = b'\x01' + bytes([1 + (1 + 1 + 12) + (1 + 1 + 5)]) + b'\x02' + b'\x00' + bytes([12]) + b'stale_helper' + b'\x01' + bytes([5]) + b'other'
    junk = bytes(rnd.getrandbits(8) for _ in range(rnd.randint(1, 40)))
    payloads = [('', b''), ('x' * 300, b'\x00\x01'), ('.debug_x', bytes(rnd.getrandbits(8) for _ in range(40))),
                ('producers', b'\x00'), ('my section', b'\xff' * 17), ('name2', b''), ('.debug_line', b''),
                ('namespace', shaped), ('name.old', junk), ('names', shaped), ('nam', shaped), ('Name', shaped), ('name ', junk), (' name', shaped),
                ('name\x00x', shaped), ('name\x00', junk), ('\x00name', shaped), ('.debug', junk), ('.debug_', b''), ('debug_info', junk),
                ('linking', junk), ('dylink.0', junk), ('target_features', junk), ('sourceMappingURL', b'\x05a.map'), ('reloc.CODE', junk),
                ('n\u00e4me', shaped), ('\u8a08', junk)]
    for sid in (0, 1, 2, 3, 4, 5, 6, 7, 8, 9, 12, 10, 11, 99):
        nm, pl = rnd.choice(payloads)
        m.customs.append((sid, nm, pl))


def variants(rnd, b, nvar):
    """yield (kind, bytes)"""
    out = []
    kinds = ['pad-max', 'pad-random', 'custom', 'dataflag', 'emptysec', 'pad-one', 'all', 'locals', 'namesec']
    for i in range(nvar):
        kind = kinds[i % len(kinds)] if i < len(kinds) else rnd.choice(kinds)
        m = wasm.decode(b)
        enc = wasm.PLAIN
        sub = kind
        if kind == 'pad-max':
            enc = pad_enc(rnd, 'max')
        elif kind == 'pad-random':
            enc = pad_enc(rnd, 'random')
        elif kind == 'pad-one':
            f = rnd.choice(sorted(PADDABLE))
            enc = pad_enc(rnd, f)
            sub = 'pad-one:' + f
        elif kind == 'custom':
            customs_everywhere(rnd, m)
        elif kind == 'namesec':
            # THE name section, well-formed but naming nothing (a module-name subsection and an empty function-names subsection), at a
            # section boundary of its own choosing - also BETWEEN standard sections: with -g it is parsed, and must change nothing
            if any(c[1] == 'name' for c in m.customs):
                continue
            sid = rnd.choice([3, 4, 5, 6, 7, 8, 9, 12, 10, 11, 11, 10])
            m.customs = list(m.customs) + [(sid, 'name', b'\x00\x02\x01m' + b'\x01\x01\x00')]
            sub = 'namesec:after%d' % sid
        elif kind == 'locals':
            enc = wasm.Enc(None, locals_rnd=rnd)   # equivalent local declaration vectors: split groups, zero-count groups anywhere
        elif kind == 'dataflag':
            for dseg in m.datas:
                if dseg['mode'] == 'active' and dseg.get('mem', 0) == 0:
                    dseg['flag'] = 2 if dseg.get('flag') in (0, None) else 0
        elif kind == 'emptysec':
            present = set(s for s, _, _ in m.section_bounds)
            for sid in (1, 2, 3, 4, 5, 6, 7, 9, 10, 11):
                if sid not in present and not (sid in (3, 10) and not (3 in present and 10 in present) and (3 in present or 10 in present)):
                    if sid in (3, 10):
                        m.force_empty_sections |= {3, 10}
                    else:
                        m.force_empty_sections.add(sid)
        elif kind == 'all':
            enc = pad_enc(rnd, 'random')
            customs_everywhere(rnd, m)
            for dseg in m.datas:
                if dseg['mode'] == 'active' and dseg.get('mem', 0) == 0 and rnd.random() < 0.5:
                    dseg['flag'] = 2
        # keep datacount as decoded
        try:
            vb = m.encode(enc)
        except Exception as ex:
            continue
        out.append((sub, vb))
    return out


def definitions(files):
    """multiset of top-level chunks (split on blank lines) over all .c/.h files; file names of s/d files are irrelevant."""
    c = collections.Counter()
    for fn, b in files.items():
        if fn.endswith('.c') or fn.endswith('.h'):
            for chunk in b.decode('latin-1').split('\n\n'):
                ch = chunk.strip('\n')
                if ch:
                    c[ch] += 1
    return c


def translate_files(w2c2, b, d, name, opts=()):
    t = e2e.translate(w2c2, b, d, name, opts)
    files = {}
    if t.rc == 0:
        for fn in t.files:
            files[fn] = open(os.path.join(d, fn), 'rb').read()
    return t, files


def main(chk):
    quick = chk.tier == 'quick'
    w2c2 = env.build_translator('plain')
    rnd = env.rng('c08')
    corpus = spec.load()
    bases = []
    sel = corpus if not quick else rnd.sample(corpus, 260)
    for e in sel:
        bases.append((e['file'], e['bytes'], e))
    for n in ('coremark', 'dino', 'fac'):
        bases.append((n, open(os.path.join(env.VERIF, 'corpus', 'examples', n + '.wasm'), 'rb').read(), None))
    for k in range(10 if quick else 80):
        c = gen.build_program_module(env.rng('c08-gen', k), gen.Profile(), n_funcs=8)
        bases.append(('gen%d' % k, c.mod.encode(), ('gen', c, k)))
    # bases that contain every prefixed (0xFC / 0xFE) instruction: all atomic flavours, saturating conversions, bulk memory
    from checks import c16 as _c16
    am, _ = _c16.build_module(False)
    bases.append(('atomics-all-flavours', am.encode(), None))
    pm = Module()
    pm.mems.append((1, 2, False))
    pm.datas.append(dict(mode='passive', bytes=b'passive-bytes'))
    for ti, (src, dst) in enumerate([(F32, I32), (F64, I32), (F32, I64), (F64, I64)]):
        for sg in 'su':
            pm.add_func([src], [dst], [], [('local.get', 0), ('%s.trunc_sat_%s_%s' % (dst, src, sg),)], export='sat%d%s' % (ti, sg))
    pm.add_func([I32, I32, I32], [], [], [('local.get', 0), ('local.get', 1), ('local.get', 2), ('memory.copy',)], export='copy')
    pm.add_func([I32, I32, I32], [], [], [('local.get', 0), ('local.get', 1), ('local.get', 2), ('memory.fill',)], export='fill')
    pm.add_func([I32, I32, I32], [], [], [('local.get', 0), ('local.get', 1), ('local.get', 2), ('memory.init', 0)], export='init')
    bases.append(('prefixed-misc', pm.encode(), None))
    # tiny modules whose sections have one- or two-byte payloads in the minimal encoding (start index 0, data count 0, zero-sized
    # memory / table, a single nullary type): the minimal form is the BASE here and every padded form is a variant
    for ti in range(6):
        tm = Module()
        if ti in (1, 4):
            tm.import_func('env', 'note', [], [])          # start function = imported function 0
        tm.globals.append((I32, True, [('i32.const', 0)]))
        f0 = tm.add_func([], [], [], [('i32.const', 42), ('global.set', 0)])
        tm.add_func([], [I32], [], [('global.get', 0)], export='get')
        tm.start = 0
        if ti in (2, 3, 4):
            tm.mems.append((0 if ti != 3 else 1, None, False))
            tm.datacount = True                             # data count section present with count 0
        if ti in (3, 5):
            tm.tables.append((0, None))
        if ti == 5:
            tm.force_empty_sections |= {9, 11}
        bases.append(('tiny%d' % ti, tm.encode(), None))
    from vlib import hostile as _hostile
    bases.append(('deep-br-140', _hostile.deep_br(140).encode(), None))
    nvar = 9 if quick else 20
    root = env.subdir('c08')

    def one(item):
        bi, (tag, b, extra) = item
        r0 = env.rng('c08-var', bi)
        d = os.path.join(root, 'b%d' % bi)
        res = []
        stats = collections.Counter()
        # base and variants are translated with the same options; -g makes the (real) name section relevant and nothing else
        opts = [[], ['-g'], ['-p'], [], ['-g', '-p'], ['-m'], ['-g', '-f', '3'], []][bi % 8]
        stats['opts_' + ('_'.join(opts) or 'none')] += 1
        tb, base_files = translate_files(w2c2, b, os.path.join(d, 'base'), 'm', opts)
        if tb.rc != 0:
            # the base itself is rejected: C10's business unless the module is outside the supported feature set - but if an EQUIVALENT
            # encoding of the same module is accepted, the rejection depends on the encoding, which is this property's business
            out_res = []
            try:
                for kind, vb in variants(r0, b, 4):
                    if vb != b and kind.startswith('pad') and e2e.validate_v8(vb, d, 'rb')[0]:
                        tv, _ = translate_files(w2c2, vb, os.path.join(d, 'rbv'), 'm', opts)
                        if tv.rc == 0:
                            out_res.append(('C08:reject:minimal-encoding', '%s (options %s): the module as given is rejected (rc %s: %s) but its %s re-encoding is accepted' % (
                                tag, ' '.join(opts), tb.rc, tb.err[-160:], kind), {'base.wasm': b, 'variant.wasm': vb, 'kind.txt': kind, 'stderr.txt': tb.err[-2000:]}, vb))
                            break
            except Exception:
                pass
            shutil.rmtree(d, ignore_errors=True)
            return tag, b, out_res, stats, [('base-rejected', tb.err[-200:])]
        base_defs = definitions(base_files)
        try:
            vs = variants(r0, b, nvar)
        except Exception as ex:
            shutil.rmtree(d, ignore_errors=True)
            return tag, b, [], stats, [('decode-failed', str(ex))]
        notes = []
        for vi, (kind, vb) in enumerate(vs):
            if vb == b:
                stats['identical-bytes'] += 1
                continue
            ok, msg = e2e.validate_v8(vb, d, 'v%d' % vi)
            if not ok:
                stats['reencoder-rejected-by-v8'] += 1
                notes.append(('v8-reject', '%s %s: %s' % (tag, kind, msg[:200])))
                continue
            vd = os.path.join(d, 'v%d' % vi)
            vopts, vbase_defs = opts, base_defs
            if kind.startswith('namesec') and '-g' not in opts:
                # the name section only matters with -g: compare against the base translated with -g as well
                vopts = opts + ['-g']
                tg, gfiles = translate_files(w2c2, b, os.path.join(d, 'base-g'), 'm', vopts)
                if tg.rc != 0:
                    continue
                vbase_defs = definitions(gfiles)
            tv, vfiles = translate_files(w2c2, vb, vd, 'm', vopts)
            stats['variants'] += 1
            stats['kind_' + kind.split(':')[0]] += 1
            wf = {'base.wasm': b, 'variant.wasm': vb, 'kind.txt': kind, 'stderr.txt': tv.err[-2000:], 'opts.txt': ' '.join(opts)}
            if tv.rc != 0:
                res.append(('C08:reject:%s' % kind, '%s variant %s (options %s) rejected by the translator (rc %s): %s' % (tag, kind, opts, tv.rc, tv.err[-300:]), wf, vb))
            else:
                vdefs = definitions(vfiles)
                if vdefs != vbase_defs:
                    only_b = list((vbase_defs - vdefs).elements())[:2]
                    only_v = list((vdefs - vbase_defs).elements())[:2]
                    res.append(('C08:defs-differ:%s' % kind, '%s variant %s (options %s): C definitions differ. base only: %s | variant only: %s' % (
                        tag, kind, ' '.join(opts), [x[:200] for x in only_b], [x[:200] for x in only_v]), wf, vb))
                else:
                    stats['defs-equal'] += 1
            shutil.rmtree(vd, ignore_errors=True)
            res.append(('seen', kind, None, vb))
        # behaviour sample
        if bi % 10 == 0 and vs:
            kind, vb = vs[-1]
            plan = script = None
            if isinstance(extra, tuple) and extra[0] == 'gen':
                c = extra[1]
                plan = e2e.Plan(c.mod)
                script, _ = progs.program_script(c, plan, env.rng('c08-s', bi), vectors=3)
            elif extra is not None and not isinstance(extra, tuple):
                rr = spec.runnable(extra)
                if rr:
                    m_, plan = rr
                    script, ncalls = spec.script_for(extra, m_, plan)
            if plan is not None and e2e.validate_v8(vb, d, 'beh')[0]:
                s1, o1, _ = e2e.build_and_run(w2c2, b, plan, script, os.path.join(d, 'run-base'), cflags=['-O0'])
                s2, o2, _ = e2e.build_and_run(w2c2, vb, plan, script, os.path.join(d, 'run-var'), cflags=['-O0'])
                if s1 == 'ok':
                    stats['behaviour-compared'] += 1
                    if s2 != 'ok' or o1 != o2:
                        res.append(('C08:behaviour:%s' % kind, '%s variant %s: behaviour differs (%s)' % (tag, kind, s2), {'base.wasm': b, 'variant.wasm': vb, 'script.txt': script}, vb))
        shutil.rmtree(d, ignore_errors=True)
        return tag, b, res, stats, notes

    total = collections.Counter()
    rej_notes = []
    for tag, b, res, stats, notes in env.pmap(one, list(enumerate(bases))):
        total.update(stats)
        h = env.sha(b)[:12]
        for key, what, files, vb in res:
            if key == 'seen':
                chk.ev()
                chk.distinct((h, what, env.sha(vb)[:12]))
            else:
                chk.violation(key, what, files)
        for n in notes:
            rej_notes.append(n)
            if n[0] == 'base-rejected':
                chk.observe('base_rejected_by_translator')
    for k, v in total.items():
        chk.observe(k, v, 'set')
    chk.observe('bases', len(bases), 'set')
    chk.sample({'base': bases[0][0], 'variant_kinds': ['pad-max', 'pad-random', 'custom', 'dataflag', 'emptysec', 'pad-one:<field>', 'all']})
    for n in rej_notes[:5]:
        chk.log('note: %s %s' % n)
    rej = total['reencoder-rejected-by-v8']
    if rej * 100 > max(1, total['variants'] + rej):
        chk.inconclusive('re-encoder produced %d variants rejected by V8 (of %d)' % (rej, total['variants'] + rej))
    chk.assume('the re-encoder is spec-equivalent (gated by V8 validation of every variant); definition chunks are separated by blank lines in w2c2 output')


def replay(chk, path):
    w2c2 = env.build_translator('plain')
    d = env.subdir('replay')
    b = open(os.path.join(path, 'base.wasm'), 'rb').read()
    vb = open(os.path.join(path, 'variant.wasm'), 'rb').read()
    op = os.path.join(path, 'opts.txt')
    opts = open(op).read().split() if os.path.exists(op) else []
    tb, bf = translate_files(w2c2, b, os.path.join(d, 'b'), 'm', opts)
    tv, vf = translate_files(w2c2, vb, os.path.join(d, 'v'), 'm', opts)
    print('base rc', tb.rc, 'variant rc', tv.rc, tv.err[-500:])
    chk.ev(2)
    chk.distinct(1)
    chk.distinct(2)
    if tv.rc != 0 or definitions(bf) != definitions(vf):
        chk.violation('C08:replay', 'variant differs')
