"""C03 Structured control flow, operand stack and locals behave as specified.

Monitor: V8 differential over control-heavy generated programs. Observed per call: result/trap, the ordered
trace of host-import calls along the taken path, final values of all mutable globals, memory image hash.
"""
import os, shutil
from vlib import env, e2e, gen, wasm, diff, progs
from vlib.wasm import *

LEVEL = 'exploration'
RULE = ('control-profile generated functions (nested block/loop/if with and without results, br/br_if/br_table to any depth with '
        'surplus operands, return/unreachable, dead code, 0..30 locals) x argument vectors; evaluation = one call; distinct = '
        'distinct (module, function, host-call trace hash) i.e. distinct executed paths')


def main(chk):
    quick = chk.tier == 'quick'
    w2c2 = env.build_translator('plain')
    nmods = 120 if quick else 1200
    vectors = 12 if quick else 24
    pbuilds = [('gcc-O1', 'gcc', ['-O1'], [], None)]
    if not quick:
        pbuilds.append(('clang-O2', 'clang', ['-O2'], [], None))
        pbuilds.append(('gcc-O0', 'gcc', ['-O0'], [], None))

    def prof_for(k):
        deep = (k % 4 == 3)
        return gen.Profile(nan_canon=True, allow_trap=(k % 5 == 0), w_control=3.0, w_trace=1.5, w_mem=0.5, w_call=0.5,
                           max_depth=(12 if quick else 40) if deep else 6, max_stmts=3 if deep else 4,
                           brtable_max=40, max_locals=30, max_size=900 if deep else 500)

    def one(k):
        d = env.subdir('c03-n%d' % k)
        wide = (k % 8 == 5)  # many functions / globals / locals: indices that need two LEB128 bytes
        if wide:
            pw = gen.Profile(nan_canon=True, allow_trap=False, w_control=2.0, w_trace=1.0, w_call=2.0, max_depth=3, max_stmts=3, max_locals=160, max_size=60)
            return k, progs.run_program(w2c2, ('c03', k), pw, d, pbuilds, n_funcs=140, vectors=3, opts=progs.opts_for(k), n_globals=150)
        return k, progs.run_program(w2c2, ('c03', k), prof_for(k), d, pbuilds, n_funcs=10, vectors=vectors, opts=progs.opts_for(k))

    rejected = 0
    maxdepth = 0
    for k, res in env.pmap(one, range(nmods)):
        if res.ref_stage == 'invalid':
            rejected += 1
            continue
        if res.ref_stage != 'ok':
            chk.inconclusive('reference run failed for module %d: %s' % (k, str(res.ref)[:300]))
            continue
        files = {'module.wasm': res.wasm, 'script.txt': res.script}
        # structure statistics actually generated
        for f in res.ctx.mod.funcs:
            dep = 0
            for ins in f.body:
                if ins[0] in ('block', 'loop', 'if'):
                    dep += 1
                    maxdepth = max(maxdepth, dep)
                elif ins[0] == 'end':
                    dep -= 1
                if ins[0] in ('br', 'br_if', 'br_table', 'return', 'unreachable', 'select', 'local.tee', 'if', 'loop', 'block', 'else', 'drop', 'nop'):
                    chk.observe('instr_' + ins[0])
                if ins[0] == 'br_table':
                    chk.observe('br_table_max_size', len(ins[1]), 'max')
        h = env.sha(res.wasm)[:12]
        cur = None
        for l in res.ref:
            p = diff.parse_call(l)
            if p and p[1] < len(res.ctx.export_wrappers):
                cur = p
                chk.ev()
                if p[3].startswith('trap'):
                    chk.observe('traps_' + p[3].split(':')[1])
            elif cur and ' t n=' in l:
                chk.distinct((h, cur[1], l.split(' h=')[1].split(' ')[0]))
                cur = None
        for tag, (st, out, diffs) in res.builds.items():
            if st != 'ok':
                chk.violation('C03:%s' % st, 'module %d failed at %s (%s): %s' % (k, st, tag, str(out)[:1200]), files)
                continue
            seen = set()
            for step, kind, ra, rb, i in diffs:
                key = 'C03:%s' % kind
                if key in seen:
                    continue
                seen.add(key)
                chk.violation(key, 'module %d build %s: line %d: reference "%s" vs compiled "%s"' % (k, tag, i, ra[:300], rb[:300]),
                              dict(files, reference_out='\n'.join(res.ref), compiled_out='\n'.join(out)))
        if k < 2:
            chk.sample({'module': k, 'bytes': len(res.wasm), 'lines': res.ref[1:6]})
        shutil.rmtree(env.subdir('c03-n%d' % k), ignore_errors=True)
    chk.observe('modules', nmods, 'set')
    chk.observe('max_block_nesting_generated', maxdepth, 'set')
    chk.observe('generator_rejected', rejected, 'set')
    if rejected * 100 > nmods:
        chk.inconclusive('generator produced %d/%d modules rejected by V8' % (rejected, nmods))
    chk.assume('V8 is the reference; generated programs terminate (fuel/budget) and stay in bounds by construction')


from checks.c01 import replay
