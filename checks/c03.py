"""C03 Structured control flow, operand stack and locals behave as specified.

Monitor: V8 differential over control-heavy generated programs. Observed per call: result/trap, the ordered
trace of host-import calls along the taken path, final values of all mutable globals, memory image hash.
"""
import os, shutil
from vlib import env, e2e, gen, wasm, diff, progs
from vlib.wasm import *

LEVEL = 'exploration'
RULE = ('control-profile generated functions (nested block/loop/if with and without results, br/br_if/br_table to any depth with '
        'surplus operands, return/unreachable, dead code, 0..30 locals) x argument vectors; evaluation = one call; distinct = '
        'distinct (module, function, host-call trace hash) i.e. distinct executed paths')


def scale_modules(rnd, quick):
    """Programs whose STRUCTURE is large (not their run time): very deep operand stacks, thousands of locals / globals / parameters,
    dense switches (thousands of nested blocks), long call chains, very long straight-line bodies, deep block nests left by br_table.
    Each is executed and compared with V8 - the hostile shapes of C10 only check that the translator survives them."""
    f = 1 if quick else 3
    T4 = [I32, I64, F32, F64]
    out = []

    def to_i64(t):
        return {I32: [('i64.extend_i32_u',)], I64: [], F32: [('i32.reinterpret_f32',), ('i64.extend_i32_u',)], F64: [('i64.reinterpret_f64',)]}[t]

    def from_i32(t, k):
        """value of type t derived from local 0 (i32) and the constant k, never NaN"""
        base = [('local.get', 0), ('i32.const', k), ('i32.add',)]
        return base + {I32: [], I64: [('i64.extend_i32_s',), ('i64.const', 0x100000001), ('i64.mul',)], F32: [('f32.convert_i32_s',)], F64: [('f64.convert_i32_u',)]}[t]

    # 1 deep operand stack
    n = 3000 * f
    m = Module()
    body = [('local.get', 0)]
    for k in range(1, n + 1):
        body += [('i32.const', wasm.to_signed((k * 2654435761) & 0xffffffff, 32))] if k % 5 else [('local.get', 0), ('i32.const', k), ('i32.mul',)]
    for k in range(1, n + 1):
        body += [(['i32.add', 'i32.xor', 'i32.sub', 'i32.rotl', 'i32.add'][k % 5],)]
    m.add_func([I32], [I32], [], body, export='f')
    out.append(('deep-stack-%d' % n, m, [[x] for x in (0, 1, 7, 0xffffffff, 0x80000000, rnd.getrandbits(32))]))
    # 2 many locals of mixed types
    n = 3000 * f
    m = Module()
    locs = [(1, T4[(i * 7 + i // 3) % 4]) for i in range(n)]
    body = []
    for i in range(n):
        body += from_i32(locs[i][1], i * 3 + 1) + [('local.set', i + 1)]
    body += [('i64.const', 0)]
    for i in range(n):
        body += [('local.get', i + 1)] + to_i64(locs[i][1]) + [('i64.const', 1099511628211), ('i64.mul',), ('i64.xor',)]
    m.add_func([I32], [I64], locs, body, export='f')
    out.append(('many-locals-%d' % n, m, [[x] for x in (0, 5, 0x7fffffff, rnd.getrandbits(31))]))
    # 3 dense switch
    n = 2000 * f
    from vlib import hostile
    m = hostile.dense_switch(n)
    sel = [0, 1, 2, n // 2, n - 2, n - 1, n, n + 1, 0xffffffff, 0x80000000] + [rnd.randrange(n) for _ in range(20)]
    out.append(('dense-switch-%d' % n, m, [[x] for x in sel], 'sw'))
    # 4 many parameters
    n = 300 * f if quick else 900
    m = Module()
    ps = [T4[(i * 5 + i // 7) % 4] for i in range(n)]
    body = [('i64.const', 7)]
    for i in range(n):
        body += [('local.get', i)] + to_i64(ps[i]) + [('i64.const', 1099511628211 + 2 * i), ('i64.mul',), ('i64.xor',)]
    callee = m.add_func(ps, [I64], [], body)
    cb = []
    for i in range(n):
        cb += from_i32(ps[i], i * 11 + 3)
    cb += [('call', callee)]
    m.add_func([I32], [I64], [], cb, export='f')
    out.append(('many-params-%d' % n, m, [[x] for x in (0, 9, 0xfffffff0, rnd.getrandbits(32))]))
    # 5 call chain (native recursion depth n)
    n = 3000 * f
    m = Module()
    first = len(m.funcs)
    for i in range(n):
        if i == n - 1:
            m.add_func([I32, I64], [I64], [], [('local.get', 1), ('local.get', 0), ('i64.extend_i32_u',), ('i64.add',)])
        else:
            m.add_func([I32, I64], [I64], [], [('local.get', 0), ('i32.const', i), ('i32.add',), ('local.get', 1), ('i64.const', i + 1), ('i64.mul',), ('i64.const', 3), ('i64.add',), ('call', first + i + 1)])
    m.add_func([I32], [I64], [], [('local.get', 0), ('i64.const', 1), ('call', first)], export='f')
    out.append(('call-chain-%d' % n, m, [[x] for x in (0, 1, rnd.getrandbits(32))]))
    # 6 many globals
    n = 3000 * f
    m = Module()
    gts = [T4[(i * 3 + i // 5) % 4] for i in range(n)]
    for i, t in enumerate(gts):
        init = {I32: ('i32.const', i), I64: ('i64.const', -i), F32: ('f32.const', wasm.f32_bits(float(i) + 0.5)), F64: ('f64.const', wasm.f64_bits(-float(i) - 0.25))}[t]
        m.globals.append((t, True, [init]))
    body = []
    for i in range(0, n, 2):
        body += from_i32(gts[i], i + 1) + [('global.set', i)]
    body += [('i64.const', 0)]
    for i in range(n):
        body += [('global.get', i)] + to_i64(gts[i]) + [('i64.const', 1099511628211), ('i64.mul',), ('i64.xor',)]
    m.add_func([I32], [I64], [], body, export='f')
    out.append(('many-globals-%d' % n, m, [[x] for x in (0, 3, rnd.getrandbits(32))]))
    # 7 long straight-line body
    n = 40000 * f
    m = Module()
    body = [('local.get', 0), ('local.set', 1)]
    for k in range(n):
        op = ['i32.add', 'i32.xor', 'i32.mul', 'i32.rotl', 'i32.sub'][k % 5]
        body += [('local.get', 1), ('i32.const', (k * 40503 + 1) & 0x7fffffff), (op,), ('local.set', 1)]
    body += [('local.get', 1)]
    m.add_func([I32], [I32], [(1, I32)], body, export='f')
    out.append(('straight-line-%d' % n, m, [[x] for x in (0, 1, rnd.getrandbits(32))]))
    # 8 deep nest of value blocks left from every depth by br_table (depth d; the carried value identifies the exit)
    d = 200
    m = Module()
    body = []
    for i in range(d):
        body += [('block', I32)]
    body += [('i32.const', 424242), ('local.get', 0), ('br_table', list(range(d)), d - 1)]
    for i in range(d):
        body += [('end',), ('i32.const', i + 1), ('i32.add',)]
    m.add_func([I32], [I32], [], body, export='f')
    out.append(('value-block-nest-%d' % d, m, [[x] for x in (0, 1, d // 2, d - 1, d, 0xffffffff)]))
    # 9 branches to labels 0..139 out of 140 nested blocks (label indices in every minimal LEB128 form)
    m = hostile.deep_br(140)
    out.append(('deep-br-140', m, [[x] for x in list(range(0, 140, 7)) + [62, 63, 64, 65, 126, 127, 128, 129, 139, 140, 0xffffffff]]))
    for k in (63, 64, 127, 128):
        out.append(('deep-br-140-br%d' % k, m, [[5]], 'br%d' % k))
    return out


def scale_part(chk, w2c2, quick):
    rnd = env.rng('c03-scale')
    items = scale_modules(rnd, quick)

    def one(ki):
        k, it = ki
        tag, m, vectors = it[0], it[1], it[2]
        fname = it[3] if len(it) > 3 else 'f'
        b = m.encode()
        plan = e2e.Plan(m)
        script = 'I 0\n' + ''.join('c 0 %d %s\n' % (plan.fk(fname), ' '.join(hex(x) for x in v)) for v in vectors)
        d = env.subdir('c03-scale-%d' % k)
        st, ref, _ = e2e.run_ref(b, plan, script, d, timeout=600)
        res = {}
        if st == 'ok':
            builds = [('gcc-O1', 'gcc', ['-O1'])] + ([] if quick else [('clang-O1', 'clang', ['-O1']), ('gcc-O0', 'gcc', ['-O0'])])
            for bt, cc, fl in builds:
                opts = [[], ['-p'], ['-f', '7', '-t', '4'], ['-g']][(k + len(bt)) % 4]
                res[bt] = e2e.build_and_run(w2c2, b, plan, script, os.path.join(d, bt), cc=cc, cflags=fl, opts=opts, timeout=900)[:2] + (opts,)
        shutil.rmtree(d, ignore_errors=True)
        return tag, b, script, st, ref, res

    for tag, b, script, st, ref, res in env.pmap(one, list(enumerate(items))):
        files = {'module.wasm': b, 'script.txt': script}
        if st != 'ok':
            chk.inconclusive('scale shape %s: reference failed (%s): %s' % (tag, st, str(ref)[:200]))
            continue
        chk.observe('scale_shapes_run', tag, 'union')
        for bt, (cst, out, opts) in res.items():
            chk.ev(len(ref) - 1)
            chk.distinct(('scale', tag, bt))
            if cst != 'ok':
                chk.violation('C03:scale:%s:%s' % (cst, tag.rsplit('-', 1)[0]), 'scale shape %s (options %s, build %s) failed at %s: %s' % (tag, ' '.join(opts), bt, cst, str(out)[-800:]), files)
                continue
            for step, kind, ra, rb, i in diff.compare(ref, out, {}):
                chk.violation('C03:scale:%s:%s' % (kind, tag.rsplit('-', 1)[0]), 'scale shape %s (options %s, build %s) line %d: reference "%s" vs compiled "%s"' % (tag, ' '.join(opts), bt, i, ra[:200], rb[:200]), files)
                break


def main(chk):
    quick = chk.tier == 'quick'
    w2c2 = env.build_translator('plain')
    nmods = 120 if quick else 1200
    vectors = 12 if quick else 24
    pbuilds = [('gcc-O1', 'gcc', ['-O1'], [], None)]
    if not quick:
        pbuilds.append(('clang-O2', 'clang', ['-O2'], [], None))
        pbuilds.append(('gcc-O0', 'gcc', ['-O0'], [], None))

    def prof_for(k):
        deep = (k % 4 == 3)
        return gen.Profile(nan_canon=True, allow_trap=(k % 5 == 0), w_control=3.0, w_trace=1.5, w_mem=0.5, w_call=0.5,
                           max_depth=(12 if quick else 40) if deep else 6, max_stmts=3 if deep else 4,
                           brtable_max=40, max_locals=30, max_size=900 if deep else 500)

    def one(k):
        d = env.subdir('c03-n%d' % k)
        wide = (k % 8 == 5)  # many functions / globals / locals: indices that need two LEB128 bytes
        if wide:
            pw = gen.Profile(nan_canon=True, allow_trap=False, w_control=2.0, w_trace=1.0, w_call=2.0, max_depth=3, max_stmts=3, max_locals=160, max_size=60)
            return k, progs.run_program(w2c2, ('c03', k), pw, d, pbuilds, n_funcs=140, vectors=3, opts=progs.opts_for(k), n_globals=150)
        return k, progs.run_program(w2c2, ('c03', k), prof_for(k), d, pbuilds, n_funcs=10, vectors=vectors, opts=progs.opts_for(k))

    rejected = 0
    maxdepth = 0
    for k, res in env.pmap(one, range(nmods)):
        if res.ref_stage == 'invalid':
            rejected += 1
            continue
        if res.ref_stage != 'ok':
            chk.inconclusive('reference run failed for module %d: %s' % (k, str(res.ref)[:300]))
            continue
        files = {'module.wasm': res.wasm, 'script.txt': res.script}
        # structure statistics actually generated
        for f in res.ctx.mod.funcs:
            dep = 0
            for ins in f.body:
                if ins[0] in ('block', 'loop', 'if'):
                    dep += 1
                    maxdepth = max(maxdepth, dep)
                elif ins[0] == 'end':
                    dep -= 1
                if ins[0] in ('br', 'br_if', 'br_table', 'return', 'unreachable', 'select', 'local.tee', 'if', 'loop', 'block', 'else', 'drop', 'nop'):
                    chk.observe('instr_' + ins[0])
                if ins[0] == 'br_table':
                    chk.observe('br_table_max_size', len(ins[1]), 'max')
        h = env.sha(res.wasm)[:12]
        cur = None
        for l in res.ref:
            p = diff.parse_call(l)
            if p and p[1] < len(res.ctx.export_wrappers):
                cur = p
                chk.ev()
                if p[3].startswith('trap'):
                    chk.observe('traps_' + p[3].split(':')[1])
            elif cur and ' t n=' in l:
                chk.distinct((h, cur[1], l.split(' h=')[1].split(' ')[0]))
                cur = None
        for tag, (st, out, diffs) in res.builds.items():
            if st != 'ok':
                chk.violation('C03:%s' % st, 'module %d failed at %s (%s): %s' % (k, st, tag, str(out)[:1200]), files)
                continue
            seen = set()
            for step, kind, ra, rb, i in diffs:
                key = 'C03:%s' % kind
                if key in seen:
                    continue
                seen.add(key)
                chk.violation(key, 'module %d build %s: line %d: reference "%s" vs compiled "%s"' % (k, tag, i, ra[:300], rb[:300]),
                              dict(files, reference_out='\n'.join(res.ref), compiled_out='\n'.join(out)))
        if k < 2:
            chk.sample({'module': k, 'bytes': len(res.wasm), 'lines': res.ref[1:6]})
        shutil.rmtree(env.subdir('c03-n%d' % k), ignore_errors=True)
    scale_part(chk, w2c2, quick)
    chk.observe('modules', nmods, 'set')
    chk.observe('max_block_nesting_generated', maxdepth, 'set')
    chk.observe('generator_rejected', rejected, 'set')
    if rejected * 100 > nmods:
        chk.inconclusive('generator produced %d/%d modules rejected by V8' % (rejected, nmods))
    chk.assume('V8 is the reference; generated programs terminate (fuel/budget) and stay in bounds by construction')


from checks.c01 import replay
