"""C05 Linear-memory instructions read and write the specified bytes.

Histories, not single calls: a module with one memory (various min/max, incl. (memory 0 0), (memory n n), no max) exports
a function per load/store flavour x static offsets x alignment hints, size, grow, copy, fill, init over passive segments.
A script generator tracks the current size and emits in-bounds operations biased to the edges. After every step both
executors print the return value; pages + hash of the whole image follow each mutating step; V8 is the reference.
Wrap-around is made visible by fault probes (base 0xFFFFFFF0 + offset 0x20): the only violation is that the *wrapped*
address (0x10, holding a sentinel) was accessed.
"""
import os, shutil, re
from vlib import env, e2e, gen, wasm, diff, progs
from vlib.wasm import *

LEVEL = 'exploration'
RULE = ('generated histories of in-bounds load/store/size/grow/copy/fill/init operations on memories of several limit shapes; '
        'evaluation = one operation whose result and resulting memory image are compared with V8; distinct = distinct '
        '(memory shape, operation flavour, effective-address class, size class); plus wrap-around fault probes')

PAGE = 65536


def build(rnd, shape):
    mn, mx = shape[0], shape[1]
    m = Module()
    m.mems.append((mn, mx, len(shape) > 2 and shape[2] == 'shared'))
    m.exports.append(('mem', 'memory', 0))
    funcs = []  # (name, kind, flavour, offset, width)
    offs_pool = [0, 0, 1, 2, 3, 4, 7, 8, 15, 16, 255, 4095, 65528, 65535, 65536, 65537, 131072 - 8]

    def carrier(t):
        return I32 if t in (I32, F32) else I64

    for n, code, t, w in wasm.LOADS:
        for j in range(3):
            off = 0 if j == 0 else rnd.choice(offs_pool)
            al = rnd.randint(0, wasm.natural_align(n))
            body = [('local.get', 0), (n, al, off)] + {F32: [('i32.reinterpret_f32',)], F64: [('i64.reinterpret_f64',)]}.get(t, [])
            name = 'ld_%s_%d' % (n, j)
            m.add_func([I32], [carrier(t)], [], body, export=name)
            funcs.append((name, 'load', n, off, w))
    for n, code, t, w in wasm.STORES:
        for j in range(3):
            off = 0 if j == 0 else rnd.choice(offs_pool)
            al = rnd.randint(0, wasm.natural_align(n))
            conv = {F32: [('f32.reinterpret_i32',)], F64: [('f64.reinterpret_i64',)]}.get(t, [])
            body = [('local.get', 0), ('local.get', 1)] + conv + [(n, al, off)]
            name = 'st_%s_%d' % (n, j)
            m.add_func([I32, carrier(t)], [], [], body, export=name)
            funcs.append((name, 'store', n, off, w))
    m.add_func([], [I32], [], [('memory.size',)], export='size')
    m.add_func([I32], [I32], [], [('local.get', 0), ('memory.grow',)], export='grow')
    m.add_func([I32, I32, I32], [], [], [('local.get', 0), ('local.get', 1), ('local.get', 2), ('memory.copy',)], export='copy')
    m.add_func([I32, I32, I32], [], [], [('local.get', 0), ('local.get', 1), ('local.get', 2), ('memory.fill',)], export='fill')
    segs = []
    nseg = rnd.randint(1, 3)
    for s in range(nseg):
        data = bytes(rnd.getrandbits(8) for _ in range(rnd.choice([0, 1, 7, 64, 300, 5000])))
        m.datas.append(dict(mode='passive', bytes=data))
        segs.append(data)
        m.add_func([I32, I32, I32], [], [], [('local.get', 0), ('local.get', 1), ('local.get', 2), ('memory.init', s)], export='init%d' % s)
        m.add_func([], [], [], [('data.drop', s)], export='drop%d' % s)
    # an active segment too, when it fits
    if mn >= 1:
        m.datas.append(dict(mode='active', offset=[('i32.const', 9)], bytes=b'active-segment'))
    m.datacount = True
    return m, funcs, segs


def history(rnd, plan, funcs, segs, shape, nops):
    mn, mx = shape[0], shape[1]
    pages = mn
    limit = mx if mx is not None else 65536
    lines = ['I 0', 'm 0 0']
    cls = []
    dropped = set()

    def size():
        return pages * PAGE

    for i in range(nops):
        x = rnd.random()
        sz = size()
        if x < 0.10:
            lines.append('c 0 %d' % plan.fk('size'))
            cls.append(('size', pages > 0))
        elif x < 0.22:
            room = limit - pages
            choices = [0, 1, 2, 3, room, room + 1, 65536, 0x7fffffff, 0x80000000, 0xffffffff, (1 << 32) - pages, 65535, 65536 - pages + 1]
            if mx is None:
                # resource-dependent corner excluded: small deltas, or deltas that exceed 65536 pages on both sides
                choices = [0, 1, 1, 2, 3, 65536, 0x7fffffff, 0x80000000, 0xffffffff, 65537]
                if pages >= 2:
                    choices.append(65535)
            delta = rnd.choice(choices) & 0xffffffff
            if rnd.random() < 0.5 and mx is not None and room > 0:
                delta = rnd.randint(0, min(room, 3))
            new = pages + delta
            ok = new <= limit
            if ok and new > 40:
                continue  # resource-dependent: keep memories small
            if ok and delta >= 1 and len(shape) <= 2 and rnd.random() < 0.25:
                # the same grow first meets a host that cannot allocate: -1, nothing changes (size, contents), and the memory stays usable
                lines.append('z 0 %d %s' % (plan.fk('grow'), hex(delta)))
                lines.append('m 0 0')
                lines.append('c 0 %d' % plan.fk('size'))
                cls.append(('grow', 'host-allocation-fails', delta))
            if ok:
                pages = new
            lines.append('c 0 %d %s' % (plan.fk('grow'), hex(delta)))
            lines.append('m 0 0')
            cls.append(('grow', 'ok' if ok else 'fail', delta == 0))
        elif x < 0.62:
            name, kind, n, off, w = rnd.choice(funcs)
            if sz < off + w:
                continue
            hi = sz - off - w
            addr = rnd.choice([0, hi, max(0, hi - 1), hi // 2, rnd.randint(0, hi), min(hi, rnd.randint(0, hi) | 1), min(hi, 65535), min(hi, 65536 - w),
                               min(hi, 65536 - w + 1 if hi >= 65536 - w + 1 else hi)])
            if kind == 'load':
                lines.append('c 0 %d %s' % (plan.fk(name), hex(addr)))
            else:
                bits = 32 if OPS[n][3][1] in (I32, F32) else 64
                v = rnd.choice([rnd.getrandbits(bits), (1 << bits) - 1, 0x80 << (bits - 8), 0x8180, 0xff80ff80ff80ff80 & ((1 << bits) - 1)])
                lines.append('c 0 %d %s %s' % (plan.fk(name), hex(addr), hex(v)))
                lines.append('m 0 0')
            cls.append((n, off, 'edge' if addr == hi else 'zero' if addr == 0 else 'mid', (addr + off) % w != 0, addr + off + w > 65536))
        elif x < 0.78 and sz > 0:
            n = rnd.choice([0, 1, 2, 7, 8, 64, 1000, 65536, sz, rnd.randint(0, min(sz, 200000))])
            n = min(n, sz)
            d = rnd.choice([0, sz - n, rnd.randint(0, sz - n)])
            s = rnd.choice([0, sz - n, rnd.randint(0, sz - n), min(sz - n, d + rnd.randint(0, 16)), max(0, d - rnd.randint(0, 16))])
            lines.append('c 0 %d %s %s %s' % (plan.fk('copy'), hex(d), hex(s), hex(n)))
            lines.append('m 0 0')
            ov = 'none' if (d + n <= s or s + n <= d) else ('fwd' if d < s else 'bwd' if d > s else 'same')
            cls.append(('copy', ov, n == 0, d + n == sz or s + n == sz))
        elif x < 0.90 and sz > 0:
            n = min(rnd.choice([0, 1, 3, 8, 100, 65536, sz, rnd.randint(0, min(sz, 100000))]), sz)
            d = rnd.choice([0, sz - n, rnd.randint(0, sz - n)])
            v = rnd.choice([0, 0xff, 0x1ff, 0xab, 0xffffff00 | rnd.getrandbits(8), rnd.getrandbits(32)])
            lines.append('c 0 %d %s %s %s' % (plan.fk('fill'), hex(d), hex(v), hex(n)))
            lines.append('m 0 0')
            cls.append(('fill', n == 0, d + n == sz, v > 255))
        elif sz > 0 or True:
            si = rnd.randrange(len(segs))
            if si in dropped:
                continue
            L = len(segs[si])
            n = rnd.choice([0, L, rnd.randint(0, L)])
            n = min(n, sz)
            s = rnd.choice([0, L - n, rnd.randint(0, L - n)])
            d = rnd.choice([0, sz - n, rnd.randint(0, sz - n)]) if sz >= n else 0
            lines.append('c 0 %d %s %s %s' % (plan.fk('init%d' % si), hex(d), hex(s), hex(n)))
            lines.append('m 0 0')
            cls.append(('init', n == 0, n == L, d + n == sz))
        if i % 50 == 49 and size() > 0:
            a = rnd.randint(0, max(0, size() - 256))
            lines.append('w 0 0 %d %d' % (a, min(256, size())))
    # data.drop at the very end (no-op for later zero-length init)
    for si in range(len(segs)):
        if rnd.random() < 0.5:
            lines.append('c 0 %d' % plan.fk('drop%d' % si))
            lines.append('c 0 %d 0x0 0x0 0x0' % plan.fk('init%d' % si))
    lines.append('m 0 0')
    return '\n'.join(lines) + '\n', cls


SHAPES = [(0, 0), (0, 1), (0, None), (1, 1), (1, 2), (1, 8), (2, 2), (2, 5), (3, 8), (1, None), (2, None), (0, 3), (3, 3), (1, 65536), (2, 1000),
          (1, 4, 'shared'), (0, 2, 'shared'), (2, 2, 'shared'), (1, 30, 'shared')]


def probes(chk, w2c2):
    """Fault probes for 32-bit wrap-around of base+offset."""
    m = Module()
    m.mems.append((1, 1, False))
    m.exports.append(('mem', 'memory', 0))
    sentinel = bytes([0x5a ^ i * 7 & 0xff for i in range(16)])
    m.datas.append(dict(mode='active', offset=[('i32.const', 0x10)], bytes=sentinel))
    names = []
    # variant 'a': base 0xFFFFFFF0 + static offset 0x20 ; variant 'b': base 0x30 + static offset 0xFFFFFFE0  (both: true address 2^32+0x10)
    for var, off in (('a', 0x20), ('b', 0xFFFFFFE0)):
        for n, code, t, w in wasm.LOADS:
            c = {F32: [('i32.reinterpret_f32',)], F64: [('i64.reinterpret_f64',)]}.get(t, [])
            m.add_func([I32], [I32 if t in (I32, F32) else I64], [], [('local.get', 0), (n, 0, off)] + c, export='p%s_%s' % (var, n))
            names.append((n, 'load', w, var))
        for n, code, t, w in wasm.STORES:
            c = {F32: [('f32.reinterpret_i32',)], F64: [('f64.reinterpret_i64',)]}.get(t, [])
            m.add_func([I32, I32 if t in (I32, F32) else I64], [], [], [('local.get', 0), ('local.get', 1)] + c + [(n, 0, off)], export='p%s_%s' % (var, n))
            names.append((n, 'store', w, var))
    b = m.encode()
    plan = e2e.Plan(m)
    d = env.subdir('c05-probe')
    st, out, r = e2e.build_and_run(w2c2, b, plan, 'I 0\nw 0 0 16 16\n', d, cc='gcc',
                                   cflags=['-O1', '-g', '-fsanitize=address', '-fno-omit-frame-pointer'])
    if st != 'ok':
        chk.violation('C05:wrap-probe:build', 'probe module failed: %s %s' % (st, str(out)[:800]), {'module.wasm': b})
        return
    base_line = out[1]
    exe = os.path.join(d, 'prog')

    def one(item):
        n, kind, w, var = item
        base = '0xfffffff0' if var == 'a' else '0x30'
        if kind == 'load':
            script = 'I 0\nc 0 %d %s\n' % (plan.fk('p%s_%s' % (var, n)), base)
        else:
            script = 'I 0\nc 0 %d %s 0x1122334455667788\nw 0 0 16 16\n' % (plan.fk('p%s_%s' % (var, n)), base)
        sp = os.path.join(d, 'probe_%s_%s.txt' % (var, n))
        open(sp, 'w').write(script)
        r = env.run([exe, sp], cwd=d, env=env.SAN_ENV, timeout=60)
        return item, script, r

    for (n, kind, w, var), script, r in env.pmap(one, names):
        chk.ev()
        chk.distinct(('probe', n, var))
        files = {'module.wasm': b, 'script.txt': script, 'stdout.txt': r.out, 'stderr.txt': r.err[-3000:]}
        lines = r.out.splitlines()
        if r.rc != 0:
            chk.observe('wrap_probe_faulted')
            continue  # faulted: the 64-bit address was used
        chk.observe('wrap_probe_no_fault')
        if kind == 'load':
            p = diff.parse_call(lines[1]) if len(lines) > 1 else None
            if p and ':' in p[3]:
                got = int(p[3].split(':')[1], 16)
                want = int.from_bytes(sentinel[:w], 'little')
                mask = (1 << (8 * w)) - 1
                if got & mask == want & mask:
                    chk.violation('C05:wrap-probe:%s' % n, '%s (probe variant %s: base+static offset = 2^32+0x10) returned the sentinel stored at wrapped address 0x10 (%#x)' % (n, var, got), files)
        else:
            if len(lines) > 2 and lines[2].split(' ')[1:] != base_line.split(' ')[1:]:
                chk.violation('C05:wrap-probe:%s' % n, '%s (probe variant %s: base+static offset = 2^32+0x10) modified the sentinel at wrapped address 0x10: %s' % (n, var, lines[2]), files)


def big_offsets(chk, w2c2):
    """Static offsets >= 2^31 on a memory larger than 2 GiB (so the accesses are IN bounds): every load/store flavour, compared with V8.
    The memory is allocated lazily by the host (calloc / V8 reservation); only a few pages are touched."""
    PAGES = 32770  # 2 GiB + 128 KiB
    m = Module()
    m.mems.append((PAGES, PAGES, False))
    m.exports.append(('mem', 'memory', 0))
    OFFS = [0x80000000, 0x80000041, 0x8000fff8]
    names = []
    for oi, off in enumerate(OFFS):
        for n, code, t, w in wasm.LOADS:
            c = {F32: [('i32.reinterpret_f32',)], F64: [('i64.reinterpret_f64',)]}.get(t, [])
            m.add_func([I32], [I32 if t in (I32, F32) else I64], [], [('local.get', 0), (n, 0, off)] + c, export='l%d_%s' % (oi, n))
            names.append(('l%d_%s' % (oi, n), 'load', w, off))
        for n, code, t, w in wasm.STORES:
            c = {F32: [('f32.reinterpret_i32',)], F64: [('f64.reinterpret_i64',)]}.get(t, [])
            m.add_func([I32, I32 if t in (I32, F32) else I64], [], [], [('local.get', 0), ('local.get', 1)] + c + [(n, 0, off)], export='s%d_%s' % (oi, n))
            names.append(('s%d_%s' % (oi, n), 'store', w, off))
    # the same region reached with a dynamic address and a small offset, to cross-check where the bytes are
    m.add_func([I32], [I64], [], [('local.get', 0), ('i64.load', 0, 8)], export='peek64')
    m.add_func([], [I32], [], [('memory.size',)], export='size')
    # active data segments whose offsets lie at / across / above 2^31 (the i32.const immediate is then a negative signed number), and bulk
    # operations with destinations and sources up there
    m.datas.append(dict(mode='active', offset=[('i32.const', wasm.to_signed(0x80000210, 32))], bytes=b'segment-above-2G'))
    m.datas.append(dict(mode='active', offset=[('i32.const', 0x7ffffffa)], bytes=b'straddles-2G'))
    m.datas.append(dict(mode='active', offset=[('i32.const', wasm.to_signed(0x8000fd00, 32))], bytes=bytes(range(200, 232)), flag=2))
    m.datas.append(dict(mode='passive', bytes=b'passive-segment-bytes'))
    m.add_func([I32, I32, I32], [], [], [('local.get', 0), ('local.get', 1), ('local.get', 2), ('memory.init', 3)], export='init3')
    m.add_func([I32, I32, I32], [], [], [('local.get', 0), ('local.get', 1), ('local.get', 2), ('memory.fill',)], export='fill')
    m.add_func([I32, I32, I32], [], [], [('local.get', 0), ('local.get', 1), ('local.get', 2), ('memory.copy',)], export='copy')
    b = m.encode()
    plan = e2e.Plan(m)
    rnd = env.rng('c05-big')
    lines = ['I 0', 'c 0 %d' % plan.fk('size'), 'w 0 0 %d 1024' % 0x7ffffc00, 'w 0 0 %d 1024' % 0x80000000, 'w 0 0 %d 1024' % 0x8000fc00,
             'c 0 %d 0x80000300 0x3 0x10' % plan.fk('init3'), 'c 0 %d 0x7ffffff0 0x0 0x15' % plan.fk('init3'),
             'c 0 %d 0x80000340 0xab 0x21' % plan.fk('fill'), 'c 0 %d 0x7fffffe0 0xcd 0x30' % plan.fk('fill'),
             'c 0 %d 0x80000380 0x80000210 0x10' % plan.fk('copy'), 'c 0 %d 0x100 0x80000210 0x10' % plan.fk('copy'), 'c 0 %d 0x8000fe00 0x7ffffffa 0x20' % plan.fk('copy'),
             'w 0 0 %d 1024' % 0x7ffffc00]
    for nm, kind, w, off in names:
        if kind == 'store':
            for a in (0, 7, 0x100):
                lines.append('c 0 %d %s %s' % (plan.fk(nm), hex(a), hex(rnd.getrandbits(64) if 'i64' in nm or 'f64' in nm else rnd.getrandbits(32))))
    for nm, kind, w, off in names:
        if kind == 'load':
            for a in (0, 3, 0x101):
                lines.append('c 0 %d %s' % (plan.fk(nm), hex(a)))
    for a in (0x7ffffff8, 0x80000000, 0x80000038, 0x800000f8, 0x8000fff0):
        lines.append('c 0 %d %s' % (plan.fk('peek64'), hex(a)))
    lines.append('w 0 0 0 1024')
    lines.append('w 0 0 %d 1024' % 0x80000000)
    lines.append('w 0 0 %d 1024' % 0x8000fc00)
    script = '\n'.join(lines) + '\n'
    d = env.subdir('c05-big')
    files = {'module.wasm': b, 'script.txt': script}
    try:
        import mmap
        mm = mmap.mmap(-1, PAGES * 65536)
        mm.close()
    except Exception as ex:
        chk.log('note: this host cannot reserve a >2GiB anonymous mapping (%s); big-offset part skipped' % ex)
        chk.observe('big_offset_part', 'skipped: host cannot reserve 2 GiB', 'set')
        return
    st, ref, _ = e2e.run_ref(b, plan, script, d)
    if st != 'ok':
        chk.log('note: reference engine could not run the >2GiB-memory module (%s %s); big-offset part skipped' % (st, str(ref)[:200]))
        chk.observe('big_offset_part', 'skipped: reference could not allocate', 'set')
        return
    st2, out, r = e2e.build_and_run(w2c2, b, plan, script, os.path.join(d, 'c'), cc='gcc', cflags=['-O1'])
    if st2 != 'ok':
        if 'alloc' in str(out).lower() or 'memory' in str(out).lower() and st2 == 'run':
            chk.log('note: host could not allocate the >2GiB memory: %s' % str(out)[:200])
            chk.observe('big_offset_part', 'skipped: host could not allocate', 'set')
            return
        chk.violation('C05:big-offset:%s' % st2, 'module with static offsets >= 2^31 failed at %s: %s' % (st2, str(out)[:800]), files)
        return
    chk.observe('big_offset_part', 'ran', 'set')
    chk.ev(len(out))
    for l in ref:
        pc = diff.parse_call(l)
        if pc:
            chk.distinct(('big-offset', pc[1]) + tuple(pc[2]))
    for step, kind, ra, rb, i in diff.compare(ref, out, {}):
        pc = diff.parse_call(ref[i])
        nm = plan.exports[pc[1]]['name'] if pc else 'memory-window'
        chk.violation('C05:big-offset:%s' % nm.split('_', 1)[-1], 'static offset >= 2^31 (in bounds on a %d-page memory): reference "%s" vs compiled "%s"' % (PAGES, ra[:150], rb[:150]), files)
        break


def limit_shapes(chk, w2c2):
    """Memories at the top of the 32-bit page-count range (lazily committed by the host, so cheap): a shared memory whose declared
    maximum is 65536 pages (the runtime reserves the maximum), memories of 65535 pages that grow by one, a 65536-page memory.
    Reference = V8 on the same script, except that a grow landing exactly on 65536 pages may legitimately fail on either side
    (resource limit): such a line is accepted if it is the old size or -1, and the rest of the script adapts to the C side's
    own answer. After every step the descriptor invariant V (allocation backs the size / the reserved maximum) is checked."""
    try:
        import mmap
        mm = mmap.mmap(-1, 65536 * 65536)
        mm.close()
    except Exception as ex:
        chk.observe('limit_shapes_part', 'skipped: host cannot reserve 4 GiB', 'set')
        return
    ran = 0
    for lim, grows in (((1, 65536, True), [1, 0]), ((0, 65536, True), [2]), ((65535, 65536, False), [1]), ((65535, None, False), [1, 1]),
                       ((65536, 65536, False), [0, 1]), ((32768, 65536, False), [32768]), ((65534, 65535, False), [1, 1])):
        m = Module()
        m.mems.append(lim)
        m.exports.append(('mem', 'memory', 0))
        m.add_func([I32, I32], [], [], [('local.get', 0), ('local.get', 1), ('i32.store', 2, 0)], export='st')
        m.add_func([I32], [I32], [], [('local.get', 0), ('i32.load', 2, 0)], export='ld')
        m.add_func([I32], [I32], [], [('local.get', 0), ('i32.load8_u', 0, 0)], export='ld8')
        m.add_func([I32], [I32], [], [('local.get', 0), ('memory.grow',)], export='grow')
        m.add_func([], [I32], [], [('memory.size',)], export='size')
        b = m.encode()
        plan = e2e.Plan(m)
        pages = lim[0]
        lines = ['I 0', 'V 0 0', 'c 0 %d' % plan.fk('size')]

        def touch(pg):
            out_ = []
            if pg > 0:
                last = pg * 65536 - 4
                out_ += ['c 0 %d %s 0x5aa51234' % (plan.fk('st'), hex(last)), 'c 0 %d %s' % (plan.fk('ld'), hex(last)), 'c 0 %d 0x1000 0x77' % plan.fk('st') if pg > 0 else '',
                         'c 0 %d 0x1000' % plan.fk('ld')]
            return [x for x in out_ if x]
        lines += touch(pages)
        script_grows = []
        for g in grows:
            script_grows.append(len(lines))
            lines.append('c 0 %d %s' % (plan.fk('grow'), hex(g)))
            lines += ['V 0 0', 'c 0 %d' % plan.fk('size')]
            # the follow-up accesses stay below the size the memory had BEFORE this grow (valid whatever the grow answered), plus 0x1000
            lines += touch(pages)
            if pages + g <= 65536 and not (pages + g == 65536 and g > 0):
                pages += g
                lines += touch(pages)
        script = '\n'.join(lines) + '\n'
        d = env.subdir('c05-limit-%d-%s-%d' % (lim[0], lim[1], int(lim[2])))
        files = {'module.wasm': b, 'script.txt': script}
        st, ref, _ = e2e.run_ref(b, plan, script, d)
        if st != 'ok':
            chk.log('note: reference engine could not run the %s memory shape (%s); skipped' % (lim, str(ref)[:120]))
            continue
        st2, out, r = e2e.build_and_run(w2c2, b, plan, script, os.path.join(d, 'c'), cc='gcc', cflags=['-O1'], cdefs=['-DWASM_THREADS_PTHREADS'], link=['-lpthread'], timeout=300)
        ran += 1
        chk.ev(len(lines))
        chk.distinct(('limit-shape', lim, tuple(grows)))
        key = 'C05:limit-shape:%s%s' % ('shared-max65536' if lim[2] and lim[1] == 65536 else 'pages-%d' % lim[0], '')
        if st2 != 'ok':
            chk.violation(key + ':' + st2, 'memory %s with grows %s: %s: %s' % (lim, grows, st2, str(out)[-700:]), files)
            continue
        for i, (x, y) in enumerate(zip(ref, out)):
            if x == y:
                continue
            px, py = diff.parse_call(x), diff.parse_call(y)
            if i in script_grows and px and py and py[3] in ('i32:0xffffffff', px[3]) :
                continue   # a grow that may fail for lack of resources: -1 on the C side is legitimate
            if px and py and px[1] == plan.fk('size') and any(g_ < i for g_ in script_grows):
                # memory.size after a tolerated grow: must equal the C side's own old size (+delta if it succeeded); checked via V and accesses
                continue
            chk.violation(key, 'memory %s with grows %s: line %d: reference "%s" vs compiled "%s"' % (lim, grows, i, x[:120], y[:160]), files)
            break
    chk.observe('limit_shapes_part', 'ran %d shapes' % ran, 'set')


def alias_part(chk, w2c2, quick):
    """Accesses of DIFFERENT types to the same bytes inside ONE function (the shape of a union / type-punning / memcpy-style code compiled
    to wasm): load A at (i << k), store B at (j << k) with i == j at run time, load A again; also inside a loop. A C compiler that is
    told the accesses have C types may reorder them (type-based alias analysis); linear memory has no types. Builds at -O2 / -O3."""
    m = Module()
    m.mems.append((1, 1, False))
    m.exports.append(('mem', 'memory', 0))
    kinds = [('i32.load', 'f32.store', 2, F32), ('f32.load', 'i32.store', 2, I32), ('i64.load', 'f64.store', 3, F64), ('f64.load', 'i64.store', 3, I64),
             ('i32.load', 'i32.store16', 2, I32), ('i64.load', 'i32.store', 3, I32), ('i32.load', 'i64.store', 2, I64), ('i64.load', 'f32.store', 3, F32),
             ('i32.load16_u', 'i32.store', 1, I32), ('f64.load', 'f32.store', 3, F32), ('i64.load32_u', 'f32.store', 2, F32), ('i32.load', 'i64.store32', 2, I64)]

    def as64(ld):
        t = OPS[ld][4][0]
        return {I32: [('i64.extend_i32_u',)], I64: [], F32: [('i32.reinterpret_f32',), ('i64.extend_i32_u',)], F64: [('i64.reinterpret_f64',)]}[t]

    def val(t, salt):
        # a value of the store's operand type derived from parameter 2 (i64), never a NaN
        base = [('local.get', 2), ('i64.const', salt), ('i64.add',)]
        return base + {I32: [('i32.wrap_i64',)], I64: [], F32: [('i32.wrap_i64',), ('i32.const', 0xffffff), ('i32.and',), ('f32.convert_i32_u',)], F64: [('f64.convert_i64_u',)]}[t]
    names = []
    for ki, (ld, st, sh, vt) in enumerate(kinds):
        addr_i = [('local.get', 0), ('i32.const', sh), ('i32.shl',)]
        addr_j = [('local.get', 1), ('i32.const', sh), ('i32.shl',)]
        al = sh
        sal = natural_align(st)
        # load, store, load
        body = addr_i + [(ld, min(al, natural_align(ld)), 0)] + as64(ld) + addr_j + val(vt, 3) + [(st, min(sal, sh), 0)] + addr_i + [(ld, min(al, natural_align(ld)), 0)] + as64(ld) + [('i64.const', 1099511628211), ('i64.mul',), ('i64.add',)]
        m.add_func([I32, I32, I64], [I64], [], body, export='lsl%d' % ki)
        # store, store(other type), load
        body = addr_i + [('i32.const', 64), ('i32.add',)] + val(vt, 9) + [(st, min(sal, sh), 0)] + addr_j + [('i32.const', 64), ('i32.add',)] + val(vt, 77) + [(st, min(sal, sh), 0)] + addr_i + [('i32.const', 64), ('i32.add',)] + [(ld, min(al, natural_align(ld)), 0)] + as64(ld)
        m.add_func([I32, I32, I64], [I64], [], body, export='ssl%d' % ki)
        # loop: 8 rounds of store B at j / load A at i, accumulated
        body = [('i32.const', 8), ('local.set', 3), ('loop', None)] + addr_j + val(vt, 5) + [('local.get', 3), ('i64.extend_i32_u',), ('i64.add',)] + \
               {I32: [('i32.wrap_i64',)], I64: [], F32: [('f32.convert_i64_u',)], F64: [('f64.convert_i64_u',)]}[vt][:0] + []
        # (value already of type vt from val(); add the round number only for integer stores)
        body = [('i32.const', 8), ('local.set', 3), ('loop', None)] + addr_j + val(vt, 5) + [(st, min(sal, sh), 0)] + \
               [('local.get', 2), ('i64.const', 1), ('i64.add',), ('local.set', 2)] + \
               addr_i + [(ld, min(al, natural_align(ld)), 0)] + as64(ld) + [('local.get', 4), ('i64.const', 31), ('i64.mul',), ('i64.add',), ('local.set', 4)] + \
               [('local.get', 3), ('i32.const', 1), ('i32.sub',), ('local.tee', 3), ('br_if', 0), ('end',), ('local.get', 4)]
        m.add_func([I32, I32, I64], [I64], [(1, I32), (1, I64)], body, export='loop%d' % ki)
        names += ['lsl%d' % ki, 'ssl%d' % ki, 'loop%d' % ki]
    m.add_func([I32, I64], [], [], [('local.get', 0), ('local.get', 1), ('i64.store', 0, 0)], export='seed')
    b = m.encode()
    plan = e2e.Plan(m)
    rnd = env.rng('c05-alias')
    lines = ['I 0']
    for a in range(0, 512, 8):
        lines.append('c 0 %d %s %s' % (plan.fk('seed'), hex(a), hex(rnd.getrandbits(64) & 0x7fefffff7f7fffff)))
    for nm in names:
        for (i, j) in ((5, 5), (5, 6), (0, 0), (7, 3), (3, 3)):
            lines.append('c 0 %d %s %s %s' % (plan.fk(nm), hex(i), hex(j), hex(rnd.getrandbits(40))))
    lines.append('w 0 0 0 512')
    script = '\n'.join(lines) + '\n'
    d = env.subdir('c05-alias')
    st, ref, _ = e2e.run_ref(b, plan, script, d)
    if st != 'ok':
        chk.inconclusive('alias part: reference failed (%s): %s' % (st, str(ref)[:300]))
        return
    files = {'module.wasm': b, 'script.txt': script}
    builds = [('gcc-O2', 'gcc', ['-O2']), ('gcc-O3', 'gcc', ['-O3']), ('clang-O2', 'clang', ['-O2'])] + ([] if quick else [('clang-O3', 'clang', ['-O3']), ('gcc-O1', 'gcc', ['-O1']), ('gcc-Os', 'gcc', ['-Os'])])
    for tag, cc, fl in builds:
        st2, out, r = e2e.build_and_run(w2c2, b, plan, script, os.path.join(d, tag), cc=cc, cflags=fl)
        chk.ev(len(names) * 5)
        chk.distinct(('alias', tag))
        if st2 != 'ok':
            chk.violation('C05:alias:%s:%s' % (st2, tag), 'type-punning module failed at %s (%s): %s' % (st2, tag, str(out)[-600:]), files)
            continue
        for step, kind, ra, rb, i in diff.compare(ref, out, {}):
            pc = diff.parse_call(ref[i])
            nm = plan.exports[pc[1]]['name'] if pc else 'memory'
            ki = int(''.join(ch for ch in nm if ch.isdigit()) or 0)
            chk.violation('C05:alias:%s-then-%s' % (kinds[ki][1], kinds[ki][0]) if pc else 'C05:alias:memory', 'build %s: %s(%s): reference %s, compiled %s (a %s to the same bytes between two %s in one function)' % (
                tag, nm, ', '.join(hex(x) for x in pc[2]) if pc else '', ra[:60], rb[:60], kinds[ki][1], kinds[ki][0]), files)
            break
    chk.observe('alias_part_functions', len(names), 'set')


def main(chk):
    quick = chk.tier == 'quick'
    w2c2 = env.build_translator('plain')
    nh = 120 if quick else 400
    nops = 300 if quick else 2000
    # (plain char is unsigned in the default ABI of several supported targets, e.g. ARM and PowerPC Linux: -funsigned-char reproduces that)
    builds = [('gcc-O1', 'gcc', ['-O1']), ('gcc-O1-unsigned-char', 'gcc', ['-O1', '-funsigned-char'])] + ([] if quick else [('clang-O2', 'clang', ['-O2'])])

    def one(k):
        rnd = env.rng('c05', k)
        shape = SHAPES[k % len(SHAPES)]
        m, funcs, segs = build(rnd, shape)
        b = m.encode(wasm.rot_enc(k))
        plan = e2e.Plan(m)
        script, cls = history(rnd, plan, funcs, segs, shape, nops)
        d = env.subdir('c05-%d' % k)
        st, ref, _ = e2e.run_ref(b, plan, script, d, timeout=600)
        outs = {}
        if st == 'ok':
            for tag, cc, cflags in builds:
                outs[tag] = e2e.build_and_run(w2c2, b, plan, script, os.path.join(d, tag), cc=cc, cflags=cflags, cdefs=['-DWASM_THREADS_PTHREADS', '-DVERIF_WRAP_REALLOC=1'],
                                              link=['-lpthread', '-Wl,--wrap=realloc'], timeout=600, opts=progs.opts_for(k))[:2]
        shutil.rmtree(d, ignore_errors=True)
        return k, shape, b, script, cls, st, ref, outs, plan

    rejected = 0
    for k, shape, b, script, cls, st, ref, outs, plan in env.pmap(one, range(nh)):
        if st == 'invalid':
            rejected += 1
            chk.log('generator bug: %s' % ref)
            continue
        if st != 'ok':
            chk.inconclusive('reference failed on history %d: %s' % (k, str(ref)[:300]))
            continue
        files = {'module.wasm': b, 'script.txt': script}
        chk.ev(len(cls))
        for c in cls:
            chk.distinct((shape,) + tuple(c))
            chk.observe('op_' + str(c[0]).split('.')[-1] if '.' in str(c[0]) else 'op_' + str(c[0]))
        oob = sum(1 for l in ref if 'trap:oob' in l)
        if oob:
            chk.inconclusive('history %d: script generator left the precondition (%d out-of-bounds traps in the reference)' % (k, oob))
            continue
        for tag, (cst, out) in outs.items():
            if cst != 'ok':
                chk.violation('C05:%s' % cst, 'history %d shape %s failed at %s (%s): %s' % (k, shape, cst, tag, str(out)[:1200]), files)
                continue
            seen = set()
            lines = script.splitlines()
            # injected allocation failures: the count is not compared, but an injection that never fired decides nothing
            noinj = next((i for i, l in enumerate(out) if l.endswith(' z injected=0') or l.endswith(' z injected=-1')), None)
            if noinj is not None:
                chk.inconclusive('history %d (%s): the allocation-failure injection did not fire at output line %d' % (k, tag, noinj))
                ref, out = ref[:max(0, noinj - 1)], out[:max(0, noinj - 1)]
            out = [re.sub(r' z injected=[1-9][0-9]*$', ' z injected=1', l) for l in out]
            chk.observe('grow_with_injected_allocation_failure', sum(1 for l in out if l.endswith(' z injected=1')))
            for step, kind, ra, rb, i in diff.compare(ref, out, {}):
                # attribute to the operation: previous 'c' line
                j = i
                while j > 0 and ' c ' not in ref[j]:
                    j -= 1
                p = diff.parse_call(ref[j])
                opname = plan.exports[p[1]]['name'] if p else '?'
                opname = opname.split('_')[1] if '_' in opname else opname.rstrip('0123456789')
                key = 'C05:%s:%s' % (kind, opname)
                if shape[:2] == (0, 0):
                    key += ':max0'
                if len(shape) > 2:
                    key += ':shared'
                if key in seen:
                    continue
                seen.add(key)
                chk.violation(key, 'history %d shape (memory %s) build %s line %d after "%s": reference "%s" vs compiled "%s"' % (
                    k, ' '.join(str(x) for x in shape), tag, i, ref[j][:120], ra[:200], rb[:200]),
                    dict(files, reference_out='\n'.join(ref), compiled_out='\n'.join(out)))
        if k < 2:
            chk.sample({'history': k, 'shape': shape, 'ops': script.splitlines()[2:8]})
    probes(chk, w2c2)
    big_offsets(chk, w2c2)
    limit_shapes(chk, w2c2)
    alias_part(chk, w2c2, quick)
    chk.observe('histories', nh, 'set')
    chk.observe('ops_per_history', nops, 'set')
    chk.observe('generator_rejected', rejected, 'set')
    chk.assume('V8 is the reference; on max-less memories only grows whose outcome does not depend on host resources are issued')


from checks.c01 import replay
