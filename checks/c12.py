"""C12 WASI file I/O returns the bytes, counts and offsets a POSIX file would.

Model = POSIX itself on shadow files. A history generator executes every operation first on tree A through Python's
os module (same kernel, same filesystem), records the expected errno (translated by an independent table), counts,
offsets, bytes delivered into guest memory, and emits a driver script; the script then runs against tree B through the
w2c2-translated trampoline module linked with wasi/wasi.c (ASan+UBSan). After every operation the CRC of the whole
tracked guest memory must equal the model's (so stray writes, wrong widths and wrong placements are visible), and at
the end tree B must equal tree A extent by extent.
"""
import os, shutil, stat, errno
from vlib import env, e2e, wasm, wasih
from vlib.wasih import wasi_errno_of, WASI_NUM

LEVEL = 'exploration'
RULE = ('generated histories of path_open/fd_write/fd_pwrite/fd_read/fd_pread/fd_seek/fd_tell/fd_filestat_get/fd_close on both ABIs; '
        'evaluation = one operation whose errno, stored results and guest-memory image are compared with the POSIX twin; distinct = '
        'distinct (operation, abi, outcome class, shape class: iovec count / offset class / whence / flag set)')

R_READ, R_WRITE, R_SEEK, R_TELL, R_FDSTAT, R_ADVISE, R_SYNC, R_FILESTAT_GET = 1 << 1, 1 << 6, 1 << 2, 1 << 5, 1 << 3, 1 << 7, 1 << 4, 1 << 21
O_CREAT, O_DIRECTORY, O_EXCL, O_TRUNC = 1, 2, 4, 8
F_APPEND, F_DSYNC, F_NONBLOCK, F_RSYNC, F_SYNC = 1, 2, 4, 8, 16
ARENA = 65536 * 4  # the whole linear memory of the trampoline module is tracked
OFFSETS = [0, 1, 7, 100, 999, 1000, 1001, 4096, 65536, (1 << 31) - 1, 1 << 31, (1 << 31) + 1, (1 << 32) - 1, 1 << 32, (1 << 32) + 1, (1 << 32) + 7,
           (1 << 32) + 4096, 1 << 33, 1 << 40, (1 << 63) - 1, 1 << 63, (1 << 64) - 1, (1 << 64) - 2]


def make_tree(root, rnd):
    os.makedirs(os.path.join(root, 'sub'))
    files = {'f0': bytes(rnd.getrandbits(8) for _ in range(1000)), 'f1': b'', 'f2': bytes(rnd.getrandbits(8) for _ in range(70000)),
             'sub/g0': b'hello world\n' * 10, 'ro': b'read only content'}
    for n, c in files.items():
        with open(os.path.join(root, n), 'wb') as f:
            f.write(c)
    os.chmod(os.path.join(root, 'ro'), 0o444)
    # special nodes whose open() fails in uncommon ways (a FIFO without reader opened for writing and a socket node give ENXIO)
    os.mkfifo(os.path.join(root, 'fifo0'))
    import socket
    sk = socket.socket(socket.AF_UNIX, socket.SOCK_STREAM)
    cwd0 = os.getcwd()
    try:
        fdd = os.open(root, os.O_RDONLY)
        try:
            sk.bind('/proc/self/fd/%d/sock0' % fdd)   # sun_path is limited to 107 bytes: bind through a short alias of the directory
        finally:
            os.close(fdd)
    finally:
        sk.close()
    return files


def offset_class(o):
    if o >= 1 << 63:
        return 'neg'
    if o >= 1 << 62:
        return '>=2^62'
    if o >= 1 << 32:
        return '>=2^32'
    if o >= 1 << 31:
        return '>=2^31'
    return 'small'


class History:
    def __init__(self, rnd, plan, rootA, rootB, nops):
        self.r = rnd
        self.g = wasih.Guest(plan, ARENA)
        self.A, self.B = rootA, rootB
        self.fds = {}  # wasi fd -> dict(py=os fd, path, readable, writable, append, isdir)
        self.closed = []
        self.next_fd = 4
        self.classes = []
        self.expect = {}  # output index -> (opname, expected return, detail)
        self.stat_checks = []  # (output index of dump, abi, twin stat, path)
        self.nops = nops
        self.written_after = {}
        self.zero_len = {}

    def abi(self):
        return self.r.choice(['p1', 'un'])

    # ---- memory helpers
    def alloc(self, n, align=4):
        # bump allocator over a scratch window, re-randomised per op
        a = (self.cursor + align - 1) // align * align
        self.cursor = a + n
        assert self.cursor < ARENA - 64
        return a

    def begin_op(self):
        self.cursor = self.r.choice([64, 1024, 4096, 30000, 65536 - 40, 65536 + 100])

    def iovecs(self, for_read, total_cap=20000):
        r = self.r
        n = r.choice([0, 1, 1, 2, 3, 4, 8])
        many = r.random() < 0.05
        if many:
            # vector counts up to and around the host's IOV_MAX (1024 on Linux): POSIX accepts exactly IOV_MAX segments and rejects more
            n = r.choice([16, 100, 1023, 1024, 1024, 1025, 2000])
        segs = []
        for i in range(n):
            L = r.choice([0, 0, 1, 2, 7, 64, 500, 4096, r.randint(0, 6000)]) if not many else r.choice([0, 1, 1, 2, 3])
            segs.append(L)
        while sum(segs) > total_cap:
            segs[segs.index(max(segs))] //= 2
        arr = self.alloc(8 * max(n, 1), 4)
        bufs = []
        shape = r.choice(['separate', 'adjacent', 'overlap', 'unordered']) if not many else 'adjacent'
        base = self.alloc(sum(segs) + (64 * (n + 1) if not many else 64), 1)
        pos = base
        for i, L in enumerate(segs):
            if shape == 'separate':
                a = pos + r.randint(0, 40)
                pos = a + L
            elif shape == 'adjacent':
                a = pos
                pos = a + L
            elif shape == 'overlap':
                a = base + r.randint(0, max(0, sum(segs) - L))
            else:
                a = base + (sum(segs) + 64 * n) - (pos - base) - L
                pos += L + 10
            bufs.append((a, L))
        # sometimes the last segment ends exactly on the last byte of linear memory, or is an empty segment at its end
        if bufs and r.random() < 0.15:
            a, L = bufs[-1]
            L = min(L, 3000)
            bufs[-1] = (ARENA - L, L)
            shape += '+end-of-memory'
        raw = b''.join(a.to_bytes(4, 'little') + L.to_bytes(4, 'little') for a, L in bufs)
        self.g.poke(arr, raw)
        if not for_read:
            for a, L in bufs:
                if r.random() < 0.8:
                    self.g.poke(a, bytes(r.getrandbits(8) for _ in range(L)))
        return arr, n, bufs, shape

    def live(self):
        return [fd for fd in self.fds]

    def pick_fd(self):
        r = self.r
        x = r.random()
        if self.fds and x < 0.9:
            return r.choice(list(self.fds))
        if self.closed and x < 0.95:
            return r.choice(self.closed)
        return r.choice([self.next_fd, self.next_fd + 5, 1000, 0x7fffffff, 0xffffffff])

    def finish_call(self, idx, name, exp_errno, cls):
        self.expect[idx] = (name, exp_errno)
        self.classes.append(cls)
        self.g.expect_crc()

    # ---- operations
    def op_open(self):
        r, g = self.r, self.g
        self.begin_op()
        names = ['f0', 'f1', 'f2', 'sub/g0', 'ro', 'new%d' % r.randint(0, 3), 'sub/new%d' % r.randint(0, 2), 'sub', 'missing/x', '.', 'f0/x', 'sub/']
        p = r.choice(names)
        special = r.random() < 0.06
        if special:
            p = r.choice(['fifo0', 'fifo0', 'sock0'])
        acc = r.choice(['r', 'w', 'rw', 'r', 'rw'])
        rights = {'r': R_READ, 'w': R_WRITE, 'rw': R_READ | R_WRITE}[acc]
        for extra in (R_SEEK, R_TELL, R_FDSTAT, R_ADVISE, R_SYNC, R_FILESTAT_GET):
            if r.random() < 0.4:
                rights |= extra
        ofl = 0
        for f, pr in ((O_CREAT, 0.35), (O_EXCL, 0.15), (O_DIRECTORY, 0.12)):
            if r.random() < pr:
                ofl |= f
        if acc != 'r' and r.random() < 0.25:
            ofl |= O_TRUNC
        fdf = 0
        if r.random() < 0.25:
            fdf |= F_APPEND
        if r.random() < 0.1:
            fdf |= F_SYNC
        if r.random() < 0.05:
            fdf |= F_DSYNC
        if special:
            fdf = F_NONBLOCK          # never block on the FIFO; no create/truncate games on special nodes
            ofl &= O_DIRECTORY
        flags = {'r': os.O_RDONLY, 'w': os.O_WRONLY, 'rw': os.O_RDWR}[acc]
        if fdf & F_NONBLOCK:
            flags |= os.O_NONBLOCK
        if ofl & O_CREAT:
            flags |= os.O_CREAT
        if ofl & O_EXCL:
            flags |= os.O_EXCL
        if ofl & O_TRUNC:
            flags |= os.O_TRUNC
        if ofl & O_DIRECTORY:
            flags |= os.O_DIRECTORY
        if fdf & F_APPEND:
            flags |= os.O_APPEND
        if fdf & F_SYNC:
            flags |= os.O_SYNC
        if fdf & F_DSYNC:
            flags |= os.O_DSYNC
        pa = self.alloc(len(p) + 8, 1)
        g.poke(pa, p.encode())  # not NUL terminated: followed by whatever the arena holds
        res = self.alloc(4, 4)
        try:
            pyfd = os.open(os.path.join(self.A, p), flags, 0o644)
            err = 0
        except OSError as ex:
            err = ex.errno
            pyfd = None
        exp = wasi_errno_of(err)
        abi = self.abi()
        idx = g.call('path_open', [3, 0, pa, len(p), ofl, rights, rights, fdf, res], abi=abi)
        if err == 0:
            fd = self.next_fd
            self.next_fd += 1
            st = os.fstat(pyfd)
            self.fds[fd] = dict(py=pyfd, path=p, readable=acc != 'w', writable=acc != 'r', isdir=stat.S_ISDIR(st.st_mode))
            g.mem[res:res + 4] = fd.to_bytes(4, 'little')
        self.finish_call(idx, 'path_open', exp, ('path_open', abi, 'ok' if err == 0 else errno.errorcode.get(err, err), ofl, fdf, acc) + (('special:' + p,) if special else ()))
        if special and err == 0:
            # a FIFO end was opened (reader, or writer while a reader is open): only its opening is modelled; close both sides again
            os.close(pyfd)
            del self.fds[fd]
            self.closed.append(fd)
            i2 = g.call('fd_close', [fd], abi=abi)
            self.finish_call(i2, 'fd_close', 0, ('fd_close', abi, 'ok', 'special'))

    def op_write(self, positional):
        r, g = self.r, self.g
        self.begin_op()
        fd = self.pick_fd()
        arr, n, bufs, shape = self.iovecs(False)
        res = self.alloc(4, 4)
        g.poke(res, b'\xcc\xcc\xcc\xcc')
        data = [bytes(g.mem[a:a + L]) for a, L in bufs]
        off = r.choice(OFFSETS) if positional else None
        info = self.fds.get(fd)
        err = 0
        nw = 0
        if info is None:
            err = errno.EBADF
        else:
            try:
                if positional:
                    if off >= 1 << 63:
                        raise OSError(errno.EINVAL, 'negative offset')
                    nw = os.pwritev(info['py'], data, off)
                else:
                    nw = os.writev(info['py'], data)
            except OSError as ex:
                err = ex.errno
        abi = self.abi()
        if positional:
            idx = g.call('fd_pwrite', [fd, arr, n, off, res], abi=abi)
            self.zero_len[idx] = sum(L for _, L in bufs) == 0
        else:
            idx = g.call('fd_write', [fd, arr, n, res], abi=abi)
        if err == 0:
            g.mem[res:res + 4] = (nw & 0xffffffff).to_bytes(4, 'little')
        exp = wasi_errno_of(err)
        if positional and off >= (1 << 62) and sum(L for _, L in bufs) == 0:
            g.poke(res, b'\0\0\0\0')  # re-synchronise the result cell (see known finding on zero-length transfers)
        if positional and err != 0 and off >= (1 << 62) and info is not None:
            # two error conditions hold at once (unusable descriptor AND unrepresentable offset): POSIX leaves the precedence open
            exp = ('either', exp, WASI_NUM['inval'], WASI_NUM['fbig'])
        self.finish_call(idx, 'fd_pwrite' if positional else 'fd_write', exp,
                         ('fd_pwrite' if positional else 'fd_write', abi, 'ok' if err == 0 else errno.errorcode.get(err, err), n, shape,
                          offset_class(off) if positional else '-', 'zero-total' if sum(L for _, L in bufs) == 0 else 'data'))

    def op_read(self, positional):
        r, g = self.r, self.g
        self.begin_op()
        fd = self.pick_fd()
        arr, n, bufs, shape = self.iovecs(True)
        res = self.alloc(4, 4)
        g.poke(res, b'\xdd\xdd\xdd\xdd')
        off = r.choice(OFFSETS) if positional else None
        info = self.fds.get(fd)
        err = 0
        nr = 0
        pybufs = [bytearray(L) for _, L in bufs]
        if info is None:
            err = errno.EBADF
        else:
            try:
                if positional:
                    if off >= 1 << 63:
                        raise OSError(errno.EINVAL, 'negative offset')
                    nr = os.preadv(info['py'], pybufs, off)
                else:
                    nr = os.readv(info['py'], pybufs)
            except OSError as ex:
                err = ex.errno
        abi = self.abi()
        if positional:
            idx = g.call('fd_pread', [fd, arr, n, off, res], abi=abi)
            self.zero_len[idx] = sum(L for _, L in bufs) == 0
        else:
            idx = g.call('fd_read', [fd, arr, n, res], abi=abi)
        if err == 0:
            left = nr
            for (a, L), pb in zip(bufs, pybufs):
                k = min(L, left)
                g.mem[a:a + k] = pb[:k]
                left -= k
            g.mem[res:res + 4] = (nr & 0xffffffff).to_bytes(4, 'little')
        exp = wasi_errno_of(err)
        if positional and off >= (1 << 62) and sum(L for _, L in bufs) == 0:
            g.poke(res, b'\0\0\0\0')
        if positional and err != 0 and off >= (1 << 62) and info is not None:
            exp = ('either', exp, WASI_NUM['inval'], WASI_NUM['fbig'])
        self.finish_call(idx, 'fd_pread' if positional else 'fd_read', exp,
                         ('fd_pread' if positional else 'fd_read', abi, 'ok' if err == 0 else errno.errorcode.get(err, err), n, shape,
                          offset_class(off) if positional else '-', 'short' if err == 0 and nr < sum(L for _, L in bufs) else 'full'))

    def op_seek(self):
        r, g = self.r, self.g
        self.begin_op()
        fd = self.pick_fd()
        abi = self.abi()
        wh = r.choice([0, 1, 2, 0, 1, 2, 3, 0xffffffff, 255])
        off = r.choice([0, 1, 10, 999, 1000, 5000, (1 << 31), (1 << 32) + 5, (1 << 40), (1 << 64) - 1, (1 << 64) - 10, (1 << 64) - 5000, (1 << 63), (1 << 63) - 1])
        res = self.alloc(8, 8)
        g.poke(res, b'\xee' * 8)
        native = {'p1': {0: os.SEEK_SET, 1: os.SEEK_CUR, 2: os.SEEK_END}, 'un': {0: os.SEEK_CUR, 1: os.SEEK_END, 2: os.SEEK_SET}}[abi].get(wh)
        info = self.fds.get(fd)
        err = 0
        pos = 0
        if native is None:
            err = errno.EINVAL  # both orders of checking (whence, then fd) give EINVAL for a bad whence on a good fd
            if info is None:
                err = None  # either EINVAL or EBADF acceptable: order of validation is not specified
        elif info is None:
            err = errno.EBADF
        else:
            try:
                so = off - (1 << 64) if off >= 1 << 63 else off
                pos = os.lseek(info['py'], so, native)
            except OSError as ex:
                err = ex.errno
        idx = g.call('fd_seek', [fd, off, wh, res], abi=abi)
        if err == 0:
            g.mem[res:res + 8] = pos.to_bytes(8, 'little')
        exp = wasi_errno_of(err) if err is not None else ('either', WASI_NUM['inval'], WASI_NUM['badf'])
        self.finish_call(idx, 'fd_seek', exp, ('fd_seek', abi, 'ok' if err == 0 else errno.errorcode.get(err, err), wh, offset_class(off)))

    def op_tell(self):
        g = self.g
        self.begin_op()
        fd = self.pick_fd()
        res = self.alloc(8, 8)
        g.poke(res, b'\xaa' * 8)
        info = self.fds.get(fd)
        err = 0
        pos = 0
        if info is None:
            err = errno.EBADF
        else:
            try:
                pos = os.lseek(info['py'], 0, os.SEEK_CUR)
            except OSError as ex:
                err = ex.errno
        abi = self.abi()
        idx = g.call('fd_tell', [fd, res], abi=abi)
        if err == 0:
            g.mem[res:res + 8] = pos.to_bytes(8, 'little')
        self.finish_call(idx, 'fd_tell', wasi_errno_of(err), ('fd_tell', abi, 'ok' if err == 0 else 'EBADF'))

    def op_filestat(self):
        g = self.g
        self.begin_op()
        fd = self.pick_fd()
        abi = self.abi()
        size = 64 if abi == 'p1' else 56
        res = self.alloc(72, 8)
        g.poke(res, b'\x77' * 72)
        info = self.fds.get(fd)
        err = 0
        st = None
        if info is None:
            err = errno.EBADF
        else:
            st = os.fstat(info['py'])
        hi = None
        if err == 0:
            # the host's own view of the same descriptor right before the call; sometimes after a status-only change (mode toggle),
            # so that ctime differs from mtime
            hi = g.emit('H %d%s' % (fd, ' chmod' if self.r.random() < 0.4 and not info['isdir'] else ''), 'hoststat')
        idx = g.call('fd_filestat_get', [fd, res], abi=abi)
        self.expect[idx] = ('fd_filestat_get', wasi_errno_of(err))
        if err == 0:
            di = g.dump(res, 72)
            self.stat_checks.append((di, abi, st, info['path'], hi))
            g.poke(res, b'\0' * 72)  # re-synchronise the model (time/ino fields are not predictable)
        self.classes.append(('fd_filestat_get', abi, 'ok' if err == 0 else 'EBADF', 'dir' if info and info['isdir'] else 'file'))
        g.expect_crc()

    def op_close(self):
        g = self.g
        fd = self.pick_fd() if self.r.random() < 0.8 or not self.fds else self.r.choice(list(self.fds))
        info = self.fds.get(fd)
        if info is None and fd in self.closed:
            return  # repeated close is C13's subject (known to be unsafe before its fix); not mixed into C12 histories
        err = 0
        if info is None:
            err = errno.EBADF
        else:
            os.close(info['py'])
            del self.fds[fd]
            self.closed.append(fd)
        abi = self.abi()
        idx = g.call('fd_close', [fd], abi=abi)
        self.finish_call(idx, 'fd_close', wasi_errno_of(err), ('fd_close', abi, 'ok' if err == 0 else 'EBADF'))

    def generate(self):
        g, r = self.g, self.r
        g.instantiate(preopens=[self.B], native={0} if r.random() < 0.25 else ())   # sometimes registered with a native descriptor
        g.poke(0, bytes(r.getrandbits(8) for _ in range(ARENA)))
        g.expect_crc()
        if r.random() < 0.2:
            # the guest closes a standard stream first: the host's lowest descriptor numbers (0, 1) are then free and the next opens
            # receive them - file I/O must not depend on which native number a file happens to get
            victim = r.choice([0, 0, 1])
            abi0 = self.abi()
            i0 = g.call('fd_close', [victim], abi=abi0)
            self.finish_call(i0, 'fd_close', 0, ('fd_close', abi0, 'ok', 'stdio-%d' % victim))
        for i in range(3):
            self.op_open()
        for i in range(self.nops):
            x = r.random()
            if x < 0.16:
                self.op_open()
            elif x < 0.30:
                self.op_write(False)
            elif x < 0.44:
                self.op_write(True)
            elif x < 0.56:
                self.op_read(False)
            elif x < 0.68:
                self.op_read(True)
            elif x < 0.80:
                self.op_seek()
            elif x < 0.86:
                self.op_tell()
            elif x < 0.94:
                self.op_filestat()
            else:
                self.op_close()
        for fd, info in list(self.fds.items()):
            os.close(info['py'])
        return g.script()


def extents(path):
    """[(offset, bytes)] of the data extents of a possibly sparse file."""
    out = []
    fd = os.open(path, os.O_RDONLY)
    try:
        size = os.fstat(fd).st_size
        pos = 0
        while pos < size:
            try:
                d = os.lseek(fd, pos, os.SEEK_DATA)
            except OSError:
                break
            h = os.lseek(fd, d, os.SEEK_HOLE)
            os.lseek(fd, d, os.SEEK_SET)
            left = h - d
            chunk = b''
            while left > 0:
                b = os.read(fd, min(left, 1 << 20))
                if not b:
                    break
                chunk += b
                left -= len(b)
            # strip zero runs so that differing hole granularity does not matter
            out.append((d, chunk))
            pos = h
        return size, out
    finally:
        os.close(fd)


def normalise(ext):
    """non-zero bytes keyed by offset ranges (holes vs explicit zeros are equivalent)"""
    res = []
    for off, data in ext:
        i = 0
        n = len(data)
        while i < n:
            if data[i] == 0:
                i += 1
                continue
            j = i
            while j < n and data[j] != 0:
                j += 1
            res.append((off + i, data[i:j]))
            i = j
    merged = []
    for o, d in res:
        if merged and merged[-1][0] + len(merged[-1][1]) == o:
            merged[-1] = (merged[-1][0], merged[-1][1] + d)
        else:
            merged.append((o, d))
    return merged


def compare_trees(A, B):
    diffs = []
    for dp, dns, fns in os.walk(A):
        rel = os.path.relpath(dp, A)
        for n in fns:
            pa = os.path.join(dp, n)
            pb = os.path.join(B, rel, n)
            if not os.path.lexists(pb):
                diffs.append('%s missing in WASI tree' % os.path.join(rel, n))
                continue
            if not stat.S_ISREG(os.lstat(pa).st_mode):
                # special nodes (FIFO, socket): only their type is compared
                if stat.S_IFMT(os.lstat(pa).st_mode) != stat.S_IFMT(os.lstat(pb).st_mode):
                    diffs.append('%s: node type differs' % os.path.join(rel, n))
                continue
            sa, ea = extents(pa)
            sb, eb = extents(pb)
            if sa != sb:
                diffs.append('%s: size %d (POSIX twin) vs %d (WASI)' % (os.path.join(rel, n), sa, sb))
            elif normalise(ea) != normalise(eb):
                diffs.append('%s: contents differ' % os.path.join(rel, n))
    for dp, dns, fns in os.walk(B):
        rel = os.path.relpath(dp, B)
        for n in fns:
            if not os.path.exists(os.path.join(A, rel, n)):
                diffs.append('%s exists only in WASI tree' % os.path.join(rel, n))
    return diffs


def huge_vectors(chk, w2c2, root, quick):
    """Vector elements of 2 GiB and more (valid buffers: this driver's guest memory has 40000 pages, lazily committed). The expected
    count of every call is what the same native readv / writev / preadv returns for a vector of the same element lengths."""
    import mmap
    try:
        big = mmap.mmap(-1, 0x9c000000)
    except (OSError, ValueError, OverflowError) as ex:
        chk.observe('huge_vector_part', 'skipped: host cannot reserve the buffers (%s)' % ex, 'set')
        return
    hmod = wasih.trampoline(pages=40000)
    hexe, hplan = wasih.build_driver(w2c2, os.path.join(root, 'build-huge'), hmod, ['-O1', '-g'], name='htramp')
    d = os.path.join(root, 'hugev')
    os.makedirs(d, exist_ok=True)
    content = b'0123456789'
    open(os.path.join(d, 'f'), 'wb').write(content)
    small = bytearray(4)
    cases = []   # (name, call args builder, vector [(addr, len)], native expectation)
    nat_r = os.open(os.path.join(d, 'f'), os.O_RDONLY)
    nat_w = os.open('/dev/null', os.O_WRONLY)
    mv = memoryview(big)

    def native(kind, lens, off=None):
        bufs = [small if n == 4 else mv[:n] for n in lens]
        try:
            if kind == 'read':
                os.lseek(nat_r, 0, 0)
                return 0, os.readv(nat_r, bufs)
            if kind == 'pread':
                return 0, os.preadv(nat_r, bufs, off)
            return 0, os.writev(nat_w, bufs)
        except OSError as ex:
            return ex.errno, 0
    vectors = [[4, 0x80000000], [0x80000000], [4, 0x7fffffff], [0x90000000], [4, 0x80000001, 4], [0x9c000000 - 0x2000]]
    g = wasih.Guest(hplan, 4096)
    g.instantiate(preopens=[d, '/dev'])
    g.poke(0x100, b'f')
    g.poke(0x110, b'null')
    g.call('path_open', [3, 0, 0x100, 1, 0, (1 << 1) | (1 << 2) | (1 << 5), 0, 0, 0x200])      # -> 5 (read, seek, tell)
    g.call('path_open', [4, 0, 0x110, 4, 0, (1 << 6), 0, 0, 0x204])                            # -> 6 (write)
    checks = []
    for vi, lens in enumerate(vectors):
        addrs = []
        a = 0x2000
        for n in lens:
            addrs.append(a if n > 4 else 0x1000)
            if n > 4:
                a = 0x2000      # the big element always starts at 0x2000 (elements may overlap: only counts and small prefixes are judged)
        iov = b''.join(x.to_bytes(4, 'little') + n.to_bytes(4, 'little') for x, n in zip(addrs, lens))
        for kind in ('read', 'pread', 'write'):
            g.poke(0x300, iov)
            g.poke(0x400, b'\xee' * 8)
            g.poke(0x1000, b'\0' * 4)
            g.poke(0x2000, b'\0' * 16)
            if kind == 'read':
                g.call('fd_seek', [5, 0, 0, 0x408])
                idx = g.call('fd_read', [5, 0x300, len(lens), 0x400])
            elif kind == 'pread':
                idx = g.call('fd_pread', [5, 0x300, len(lens), 2, 0x400])
            else:
                idx = g.call('fd_write', [6, 0x300, len(lens), 0x400])
            di = g.dump(0x400, 4)
            d1 = g.dump(0x1000, 4)
            d2 = g.dump(0x2000, 16)
            ti = None
            if kind == 'read':
                g.poke(0x410, b'\xee' * 8)
                g.call('fd_tell', [5, 0x410])
                ti = g.dump(0x410, 8)
            checks.append((kind, lens, idx, di, d1, d2, ti, native(kind, lens, 2)))
    script = g.script()
    rr, out = wasih.run_script(hexe, d, script, timeout=600)
    os.close(nat_r)
    os.close(nat_w)
    files = {'script.txt': script, 'stderr.txt': rr.err.decode('latin-1')[-3000:], 'log.txt': '\n'.join(out)[-8000:]}
    if rr.rc != 0:
        chk.violation('C12:huge-vector:crash', 'vectors with elements >= 2 GiB: driver exit %s' % rr.rc, files)
        return
    chk.observe('huge_vector_part', 'ran', 'set')
    for kind, lens, idx, di, d1, d2, ti, (nerr, ncnt) in checks:
        chk.ev()
        chk.distinct(('huge-vector', kind, tuple(lens)))
        got = wasih.call_result(out[idx])
        cnt = int.from_bytes(bytes.fromhex(out[di].split(' ')[3]), 'little')
        what = 'fd_%s with element lengths %s' % (kind, [hex(n) for n in lens])
        if (got != 0) != (nerr != 0):
            chk.violation('C12:huge-vector:%s:errno' % kind, '%s: returned errno %s, the native call %s' % (what, got, 'failed with errno %d' % nerr if nerr else 'succeeded with count %d' % ncnt), files)
            continue
        if nerr == 0 and cnt != ncnt:
            chk.violation('C12:huge-vector:%s:count' % kind, '%s: reported %d bytes, the native call transfers %d' % (what, cnt, ncnt), files)
            continue
        if nerr == 0 and kind in ('read', 'pread'):
            data = content[2:] if kind == 'pread' else content
            b1 = bytes.fromhex(out[d1].split(' ')[3])
            b2 = bytes.fromhex(out[d2].split(' ')[3])
            exp1 = data[:4] if lens[0] == 4 else b'\0' * 4
            rest = data[4:] if lens[0] == 4 else data
            if b1 != exp1 or b2[:len(rest)] != rest:
                chk.violation('C12:huge-vector:%s:bytes' % kind, '%s: buffers hold %s / %s, expected %s / %s' % (what, b1, b2[:len(rest)], exp1, rest), files)
            if ti is not None:
                pos = int.from_bytes(bytes.fromhex(out[ti].split(' ')[3]), 'little')
                if pos != ncnt:
                    chk.violation('C12:huge-vector:read:position', '%s: position afterwards %d, expected %d' % (what, pos, ncnt), files)


def symlink_preopen(chk, plan, exe, root):
    """A pre-open registered through a path whose last component is a symbolic link to the directory (e.g. /tmp on some systems): the
    descriptor stands for the DIRECTORY (fstat semantics), whichever way the host keeps it (by path or by native descriptor)."""
    for k, native in enumerate((False, True)):
        d = os.path.join(root, 'symlink-preopen-%d' % k)
        real = os.path.join(d, 'real')
        os.makedirs(os.path.join(real, 'inner'))
        open(os.path.join(real, 'x'), 'wb').write(b'0123456789')
        via = os.path.join(d, 'via')
        os.symlink('real', via)
        st = os.stat(real)
        g = wasih.Guest(plan, 4096)
        g.instantiate(preopens=[via], native={0} if native else ())
        g.poke(0x100, b'x')
        checks = []
        for abi in ('p1', 'un'):
            g.poke(0x400, b'\x77' * 72)
            i1 = g.call('fd_filestat_get', [3, 0x400], abi=abi)
            d1 = g.dump(0x400, 72)
            checks.append((abi, i1, d1))
        g.poke(0x500, b'\x77' * 24)
        i2 = g.call('fd_fdstat_get', [3, 0x500])
        d2 = g.dump(0x500, 24)
        i3 = g.call('path_open', [3, 0, 0x100, 1, 0, (1 << 1), 0, 0, 0x600])
        script = g.script()
        rr, out = wasih.run_script(exe, d, script)
        files = {'script.txt': script, 'stderr.txt': rr.err.decode('latin-1')[-3000:], 'log.txt': '\n'.join(out)}
        chk.ev(4)
        chk.distinct(('symlink-preopen', native))
        tag = 'native-descriptor' if native else 'by-path'
        if rr.rc != 0 or len(out) <= i3:
            chk.violation('C12:symlink-preopen:crash', 'pre-open through a symbolic link (%s): driver exit %s' % (tag, rr.rc), files)
            continue
        for abi, i1, d1 in checks:
            raw = bytes.fromhex(out[d1].split(' ')[3])
            ino = int.from_bytes(raw[8:16], 'little')
            ft = raw[16]
            if wasih.call_result(out[i1]) != 0 or ft != 3 or ino != st.st_ino:
                chk.violation('C12:symlink-preopen:fd_filestat_get:%s' % ('preview1' if abi == 'p1' else 'unstable'),
                              'fd_filestat_get on a pre-open registered through a symbolic link (%s): errno %s filetype %d inode %d; fstat of the directory gives filetype 3 (directory) inode %d' % (
                                  tag, wasih.call_result(out[i1]), ft, ino, st.st_ino), files)
        raw = bytes.fromhex(out[d2].split(' ')[3])
        if wasih.call_result(out[i2]) != 0 or raw[0] != 3:
            chk.violation('C12:symlink-preopen:fd_fdstat_get', 'fd_fdstat_get on a pre-open registered through a symbolic link (%s): errno %s filetype %d, expected directory' % (tag, wasih.call_result(out[i2]), raw[0]), files)
        if wasih.call_result(out[i3]) != 0:
            chk.violation('C12:symlink-preopen:path_open', 'path_open below a pre-open registered through a symbolic link (%s) fails with errno %s' % (tag, wasih.call_result(out[i3])), files)


def main(chk):
    quick = chk.tier == 'quick'
    w2c2 = env.build_translator('plain')
    root = env.subdir('c12')
    mod = wasih.trampoline()
    exe, plan = wasih.build_driver(w2c2, os.path.join(root, 'build'), mod,
                                   ['-O1', '-g', '-fno-omit-frame-pointer', '-fsanitize=address,undefined', '-fno-sanitize-recover=all'])
    nh = 300 if quick else 3000
    nops = 60 if quick else 200

    def one(k):
        rnd = env.rng('c12', k)
        d = os.path.join(root, 'h%d' % k)
        A, B = os.path.join(d, 'A'), os.path.join(d, 'B')
        make_tree(A, env.rng('c12-tree', k))
        make_tree(B, env.rng('c12-tree', k))
        h = History(rnd, plan, A, B, nops)
        script = h.generate()
        r, out = wasih.run_script(exe, d, script)
        res = []
        files = {'script.txt': script, 'stderr.txt': r.err.decode('latin-1')[-4000:], 'log.txt': '\n'.join(out)}
        from vlib import san
        reps = san.parse(r.err.decode('latin-1'))
        if reps:
            res.append(('C12:' + reps[0][0], 'history %d: %s' % (k, reps[0][1]), files))
        elif r.rc != 0 or r.timeout:
            res.append(('C12:crash:%s' % ('timeout' if r.timeout else r.rc), 'history %d: driver exit %s: %s' % (k, r.rc, r.err.decode('latin-1')[-300:]), files))
        kinds = h.g.kinds
        first_bad = None
        for i, line in enumerate(out):
            if i >= len(kinds):
                break
            kind, payload = kinds[i]
            if kind == 'call' and i in h.expect:
                name, exp = h.expect[i]
                got = wasih.call_result(line)
                abi = 'preview1' if line.split(' ')[2] and plan.exports[int(line.split(' ')[2])]['name'].startswith('p1_') else 'unstable'
                ok = (got in exp[1:]) if isinstance(exp, tuple) else got == exp
                if not ok:
                    opline = h.g.lines[i]
                    detail = ''
                    if name in ('fd_pwrite', 'fd_pread'):
                        off = int(opline.split(' ')[6], 16)
                        detail = ':offset' + offset_class(off)
                        cls = [c for c in h.classes if c[0] == name]
                        # zero-length transfers are keyed separately (the lseek-based emulation differs only there)
                        if exp == 0 and got == WASI_NUM['inval'] and h.zero_len.get(i):
                            detail += ':zero-length'
                    res.append(('C12:%s:errno%s:%s' % (name, detail, abi), 'history %d op "%s": expected errno %s, got %s' % (k, opline[:120], exp, got), files))
                    if detail.endswith(':zero-length'):
                        continue  # no state change on either side: keep judging the rest of the history
                    first_bad = i
                    break
            elif kind == 'crc':
                got = int(line.split(' ')[2], 16) if len(line.split(' ')) > 2 else None
                if got != payload:
                    # attribute to the preceding call
                    j = i
                    while j > 0 and kinds[j][0] != 'call':
                        j -= 1
                    name = h.expect.get(j, ('?', 0))[0]
                    opline = h.g.lines[j]
                    abi = 'preview1' if plan.exports[int(opline.split(' ')[2])]['name'].startswith('p1_') else 'unstable'
                    detail = ''
                    if name in ('fd_pwrite', 'fd_pread'):
                        detail = ':offset' + offset_class(int(opline.split(' ')[6], 16))
                    res.append(('C12:%s:guest-memory%s:%s' % (name, detail, abi), 'history %d after "%s": guest memory image differs from the POSIX model (stored count/offset, delivered bytes or a stray write)' % (k, opline[:120]), files))
                    first_bad = i
                    break
        if first_bad is None and not res:
            # filestat dumps
            for di, abi, st, path, hi in h.stat_checks:
                if di >= len(out):
                    continue
                hx = out[di].split(' ')[3]
                raw = bytes.fromhex(hx)
                u64 = lambda o: int.from_bytes(raw[o:o + 8], 'little')
                if abi == 'p1':
                    ftype, nlink, size, end = raw[16], u64(24), u64(32), 64
                    times = (u64(40), u64(48), u64(56))
                else:
                    ftype, nlink, size, end = raw[16], int.from_bytes(raw[20:24], 'little'), u64(24), 56
                    times = (u64(32), u64(40), u64(48))
                want_type = 3 if stat.S_ISDIR(st.st_mode) else 4
                stB = os.stat(os.path.join(B, path))
                probs = []
                if ftype != want_type:
                    probs.append('filetype %d != %d' % (ftype, want_type))
                if nlink != st.st_nlink:
                    probs.append('nlink %d != %d' % (nlink, st.st_nlink))
                if size != st.st_size:
                    probs.append('size %d != %d' % (size, st.st_size))
                if u64(0) != stB.st_dev:
                    probs.append('dev %d != %d' % (u64(0), stB.st_dev))
                if u64(8) != stB.st_ino:
                    probs.append('ino %d != %d' % (u64(8), stB.st_ino))
                if raw[end:] != b'\x77' * (72 - end):
                    probs.append('wrote past the %d-byte filestat' % end)
                if hi is not None and hi < len(out) and out[hi].split(' ')[2] != 'none':
                    hv = [int(x) for x in out[hi].split(' ')[2:7]]
                    for nm_, got_, want_ in (('atim', times[0], hv[0]), ('mtim', times[1], hv[1]), ('ctim', times[2], hv[2])):
                        if got_ != want_:
                            probs.append('%s %d != host fstat of the same descriptor %d' % (nm_, got_, want_))
                now = stB.st_mtime_ns
                for t in times:
                    if not (now - 3600 * 10**9 <= t <= now + 3600 * 10**9):
                        probs.append('timestamp %d not in nanoseconds near now' % t)
                        break
                if probs:
                    res.append(('C12:fd_filestat_get:fields:%s' % ('preview1' if abi == 'p1' else 'unstable'), 'history %d filestat of %s: %s' % (k, path, '; '.join(probs)), files))
                    break
            td = compare_trees(A, B)
            if td:
                res.append(('C12:final-tree', 'history %d: %s' % (k, '; '.join(td[:3])), files))
        ncalls = sum(1 for kd in kinds if kd[0] == 'call')
        shutil.rmtree(d, ignore_errors=True)
        return k, res, h.classes, ncalls, script

    for k, res, classes, ncalls, script in env.pmap(one, range(nh)):
        chk.ev(ncalls)
        for c in classes:
            chk.distinct(c)
            chk.observe('op_' + c[0])
            chk.observe('outcome_%s_%s' % (c[0], c[2]))
        for key, what, files in res:
            chk.violation(key, what, files)
        if k < 2:
            chk.sample({'history': k, 'first_ops': [l[:100] for l in script.splitlines() if l.startswith('c ')][:6]})
    chk.observe('histories', nh, 'set')
    huge_vectors(chk, w2c2, root, quick)
    symlink_preopen(chk, plan, exe, root)
    chk.assume('the POSIX twin runs on the same kernel and filesystem, so platform quirks are shared by model and implementation')
    chk.assume('rights sets always contain FD_READ and/or FD_WRITE and none of DATASYNC/ALLOCATE/FILESTAT_SET_SIZE/READDIR; O_TRUNC only with write access')


def replay(chk, path):
    print(open(os.path.join(path, 'script.txt')).read()[:3000])
    chk.ev(2)
    chk.distinct(1)
    chk.distinct(2)
