#!/bin/bash
# Validate and ingest a seeded breaking change written by a sub-agent.
#   usage: tools_seed.sh <name> <worktree with SEED/> "<props to run, space separated>"
# Confirms: patch applies to a clean copy of /repo, project builds and its 15 tests pass with it, the demonstration fails
# with the patch and passes without; then runs the listed checks (quick tier) against the patched copy.
set -u
name="$1"; wt="$2"; props="$3"
cd "$(dirname "$0")"
S="$wt/SEED"
[ -f "$S/patch.diff" ] || { echo "no patch.diff"; exit 2; }
clean=$(mktemp -d /tmp/w2c2seed-clean-XXXXXX); mut=$(mktemp -d /tmp/w2c2seed-mut-XXXXXX)
trap 'rm -rf "$clean" "$mut"' EXIT
rsync -a --exclude _build --exclude .git --exclude SEED /repo/ "$clean/"; rsync -a --exclude _build --exclude .git --exclude SEED /repo/ "$mut/"
( cd "$mut" && patch -s -p1 < "$S/patch.diff" ) || { echo "SEED $name: patch does not apply"; exit 2; }
W2C2_REPO="$mut" ./baseline_off.sh > /tmp/seed_base.$name.log 2>&1; base=$?
( bash "$S/demo.sh" "$mut" > /tmp/seed_demo_mut.$name.log 2>&1 ); dm=$?
( bash "$S/demo.sh" "$clean" > /tmp/seed_demo_clean.$name.log 2>&1 ); dc=$?
echo "SEED $name: tests-with-patch rc=$base demo-with-patch rc=$dm demo-clean rc=$dc"
caught=""
for p in $props; do
  out=$(W2C2_REPO="$mut" ./check "$p" --tier quick 2>&1); rc=$?
  key=$(echo "$out" | grep '^VIOLATION' | head -1 | sed 's/.*key=\([^ ]*\).*/\1/')
  echo "SEED $name: check $p rc=$rc ${key}"
  [ $rc -eq 1 ] && caught="$caught $p[$key]"
done
if [ $base -eq 0 ] && [ $dm -ne 0 ] && [ $dc -eq 0 ]; then
  mkdir -p "seeded/$name"; cp -r "$S"/* "seeded/$name/"; 
  python3 - "$name" "$props" "$caught" <<'PY'
import json, sys, os
name, props, caught = sys.argv[1], sys.argv[2], sys.argv[3]
d = 'seeded/%s' % name
notes = open(os.path.join(d, 'notes.md')).read() if os.path.exists(os.path.join(d, 'notes.md')) else ''
meta = {'name': name, 'breaks_property': name.split('-')[0], 'needs_to_manifest': notes[:1500],
        'confirmed': {'patch_applies_to_repo_head': True, 'pinned_tests_pass_with_patch': True, 'demo_fails_with_patch': True, 'demo_passes_without_patch': True},
        'ran': ['baseline_off.sh with W2C2_REPO=<patched copy>', 'bash demo.sh <patched copy>', 'bash demo.sh <clean copy>'] + ['W2C2_REPO=<patched copy> ./check %s --tier quick' % p for p in props.split()],
        'caught_by': caught.split()}
json.dump(meta, open(os.path.join(d, 'meta.json'), 'w'), indent=1)
PY
  echo "SEED $name: KEPT caught_by:$caught"
else
  echo "SEED $name: REJECTED (conditions not met)"; tail -5 /tmp/seed_demo_mut.$name.log /tmp/seed_demo_clean.$name.log /tmp/seed_base.$name.log
fi
