"""End-to-end execution: wasm -> (w2c2 under test) -> C -> binary + generated driver, and the V8 reference.

The driver is generated from an *independent* implementation of the documented symbol scheme:
  exported function/memory  <module>_<escaped name>
  imported function         <importmodule>__<name>(void* instance, ...)   (prefixed with <module>_ under -m)
  escaping: alnum except 'X' kept, '_' kept (second of a pair doubled), everything else X%02X
"""
import os, json
from . import env, wasm
from .env import run, HarnessError

CT = {'i32': 'U32', 'i64': 'U64', 'f32': 'F32', 'f64': 'F64'}


def escape(name):
    if isinstance(name, str):
        name = name.encode('utf-8')  # the escape is applied byte by byte to the UTF-8 encoding
    name = name.decode('latin-1')
    out = []
    for i, c in enumerate(name):
        if c == '_':
            out.append('__' if i > 0 and name[i - 1] == '_' else '_')
        elif c != 'X' and c.isascii() and c.isalnum():
            out.append(c)
        else:
            out.append('X%02X' % (ord(c) & 0xff))
    return ''.join(out)


def module_name_for(path):
    base = os.path.basename(path)
    stem = base.rsplit('.', 1)[0] if '.' in base else base
    return ''.join(c for c in stem if c.isascii() and c.isalnum())


def cstr(b):
    if isinstance(b, str):
        b = b.encode()
    return '"' + ''.join('\\%03o' % c for c in b) + '"'


class Plan:
    """Everything both executors need to know about a module: exports, imports, memory/table refs."""

    def __init__(self, mod, import_inits=None):
        self.mod = mod
        self.exports = []  # callable exports: dict(name, params, results)
        self.memrefs = []
        self.tblrefs = []
        self.imports = []
        import_inits = import_inits or {}
        fid = mi = ti = gi = 0
        for (m, n, kind, desc) in mod.imports:
            ms = m.decode() if isinstance(m, bytes) else m
            ns = n.decode() if isinstance(n, bytes) else n
            if kind == 'func':
                ps, rs = mod.types[desc]
                self.imports.append(dict(kind='func', mod=ms, name=ns, id=fid, params=list(ps), results=list(rs)))
                fid += 1
            elif kind == 'memory':
                self.imports.append(dict(kind='memory', mod=ms, name=ns, min=desc[0], max=desc[1],
                                         shared=bool(len(desc) > 2 and desc[2]), index=mi))
                self.memrefs.append(dict(kind='import', index=mi, mod=ms, name=ns))
                mi += 1
            elif kind == 'table':
                self.imports.append(dict(kind='table', mod=ms, name=ns, min=desc[0], max=desc[1], index=ti))
                self.tblrefs.append(dict(kind='import', index=ti, mod=ms, name=ns))
                ti += 1
            elif kind == 'global':
                init = import_inits.get((ms, ns), import_inits.get(gi, 0))
                self.imports.append(dict(kind='global', mod=ms, name=ns, type=desc[0], mut=bool(desc[1]),
                                         init=str(init), index=gi))
                gi += 1
        for (n, kind, idx) in mod.exports:
            ns = n.decode() if isinstance(n, bytes) else n
            if kind == 'func':
                ps, rs = mod.func_type(idx)
                self.exports.append(dict(name=ns, params=list(ps), results=list(rs)))
            elif kind == 'memory':
                self.memrefs.append(dict(kind='export', name=ns))
            elif kind == 'table':
                self.tblrefs.append(dict(kind='export', name=ns, index=idx))
        self.export_index = {e['name']: i for i, e in enumerate(self.exports)}

    def config_json(self):
        return json.dumps(dict(exports=self.exports, imports=self.imports, memrefs=self.memrefs, tblrefs=self.tblrefs))

    def fk(self, name):
        return self.export_index[name]


DRIVER_HEAD = r'''
#include <stdio.h>
#include <stdlib.h>
#include <string.h>
#include <setjmp.h>
#include <malloc.h>
#include "w2c2_base.h"
#include "@HEADER@"
typedef @M@Instance Inst;
#define NINST 8
static Inst insts[NINST];
static Inst* instp[NINST];   /* the live instance behind number k: &insts[k] after I, or the object returned by newChild after N */
static void* creatingChildOf; static void* childSeen; static int childSeenMismatch;
static int cur = -1;
static FILE* OUT;
static jmp_buf jb;
static volatile int trapCode, trapCount;
#ifdef VERIF_WRAP_REALLOC
/* allocation-failure injection (link with -Wl,--wrap=realloc): while armed, every realloc of 64 KiB or more fails */
void* __real_realloc(void* p, size_t n);
static volatile int failRealloc, failedReallocs;
void* __wrap_realloc(void* p, size_t n) { if (failRealloc && n >= 65536u) { failedReallocs++; return NULL; } return __real_realloc(p, n); }
#endif
void trap(Trap t) { trapCode = (int)t; trapCount++; longjmp(jb, 1); }
static const char* trapName(int t) {
  switch (t) { case trapUnreachable: return "unreachable"; case trapDivByZero: return "divzero";
  case trapIntOverflow: return "overflow"; case trapInvalidConversion: return "invalidconv";
  case trapAllocationFailed: return "alloc"; default: return "unknown"; }
}
/* host trace */
static unsigned long traceN; static U64 traceH = W2C2_LL(0xcbf29ce484222325U);
static char traceBuf[1 << 16]; static size_t traceLen; static int traceItems;
static void traceAdd(const char* s) {
  const char* p; traceN++;
  for (p = s; *p; p++) traceH = (traceH ^ (U64)(unsigned char)*p) * W2C2_LL(0x100000001B3U);
  if (traceItems < 48) { size_t n = strlen(s); if (traceLen + n + 2 < sizeof traceBuf) {
    if (traceItems) traceBuf[traceLen++] = ' '; memcpy(traceBuf + traceLen, s, n); traceLen += n; traceBuf[traceLen] = 0; traceItems++; } }
}
static U64 mixv(int id, const U64* a, int n) {
  U64 h = W2C2_LL(0x9E3779B97F4A7C15U) * (U64)(id + 1); int i;
  for (i = 0; i < n; i++) h = (h ^ a[i]) * W2C2_LL(0x100000001B3U);
  return h;
}
static void hostLog(int id, void* inst, const U64* a, int n) {
  char b[1024]; size_t o = 0; int i;
  o += (size_t)sprintf(b + o, "h%d(", id);
  for (i = 0; i < n; i++) o += (size_t)sprintf(b + o, "%s0x%llx", i ? "," : "", a[i]);
  if (creatingChildOf) { /* host calls made while newChild runs (start function): the instance must be the new child - one and the same
                            new object, never the parent or any other live instance; its identity is confirmed when newChild returns */
    int k_, known = 0; for (k_ = 0; k_ < NINST; k_++) if (instp[k_] && inst == (void*)instp[k_]) known = 1;
    if (inst == creatingChildOf || known || (childSeen && childSeen != inst)) childSeenMismatch = 1;
    if (!childSeen) childSeen = inst;
    sprintf(b + o, ")%s", (inst == creatingChildOf || known) ? "BADINST" : "ok"); }
  else sprintf(b + o, ")%s", (cur >= 0 && inst == (void*)instp[cur]) ? "ok" : "BADINST");
  traceAdd(b);
}
static U32 f2i(F32 f) { U32 u; memcpy(&u, &f, 4); return u; }
static U64 d2j(F64 f) { U64 u; memcpy(&u, &f, 8); return u; }
static F32 i2f(U32 u) { F32 f; memcpy(&f, &u, 4); return f; }
static F64 j2d(U64 u) { F64 f; memcpy(&f, &u, 8); return f; }
'''

DRIVER_TAIL = r'''
#define MAXSETS 512
static U64 sets[MAXSETS][256]; static int setN[MAXSETS];
static void memHash(wasmMemory* m, int step) {
  U32 a = 0x811c9dc5u, b = 0x01000193u; U64 n = (U64)m->pages * 65536u, i;
  for (i = 0; i < n; i++) { U32 c = m->data[i]; a = (a ^ c) * 0x01000193u; b = (U32)((b + c) * 0x85ebca6bu) ^ (b >> 13); }
  fprintf(OUT, "%d m pages=%u h=0x%llx\n", step, m->pages, ((U64)a << 32) | (U64)b);
}
static void doCall(int step, int inst, int fk, const U64* a, int n) {
  U64 r = 0; int i; volatile int before = trapCount;
  fprintf(OUT, "%d c %d", step, fk);
  for (i = 0; i < n; i++) fprintf(OUT, " 0x%llx", a[i]);
  fprintf(OUT, " -> "); fflush(OUT);
  cur = inst;
  if (setjmp(jb) == 0) {
    thunks[fk].fn(instp[inst], a, &r);
    if (thunks[fk].ret[0] == 'v') fprintf(OUT, "void\n"); else fprintf(OUT, "%s:0x%llx\n", thunks[fk].ret, r);
  } else {
    fprintf(OUT, "trap:%s%s\n", trapName(trapCode), (trapCount - before) == 1 ? "" : ":MULTI");
  }
}
int main(int argc, char** argv) {
  FILE* f; static char line[1 << 23]; int step = 0;
  if (argc < 2) return 2;
  f = fopen(argv[1], "r"); if (!f) return 2;
  if (argc > 2) { OUT = fopen(argv[2], "w"); if (!OUT) return 2; } else OUT = stdout;
  setvbuf(OUT, NULL, _IOLBF, 0);
  while (fgets(line, sizeof line, f)) {
    char* tok[2048]; int nt = 0; char* p = strtok(line, " \n");
    while (p && nt < 2048) { tok[nt++] = p; p = strtok(NULL, " \n"); }
    if (nt == 0) continue;
    if (tok[0][0] == 'S') { int s = atoi(tok[1]), i; if (s < 0 || s >= MAXSETS || atoi(tok[2]) > 256) { fprintf(stderr, "driver: operand set out of range\n"); return 2; } setN[s] = atoi(tok[2]); for (i = 0; i < setN[s]; i++) sets[s][i] = strtoull(tok[3 + i], NULL, 0); continue; }
    step++;
    switch (tok[0][0]) {
    case 'F': { int k = atoi(tok[1]); @M@FreeInstance(instp[k]); instp[k] = NULL; fprintf(OUT, "%d F %d ok\n", step, k); break; }
    case 'N': { /* N <parent> <k>: instance k becomes a child of <parent> (common.newChild); for a module without shared memories a child
                   is observably a fresh instance built with the same resolver */
      int pa = atoi(tok[1]), k = atoi(tok[2]); Inst* c;
      cur = k; creatingChildOf = (void*)instp[pa]; childSeen = NULL; childSeenMismatch = 0;
      if (setjmp(jb) == 0) { c = (Inst*)instp[pa]->common.newChild((wasmModuleInstance*)instp[pa]);
        if (c == NULL || (childSeen && childSeen != (void*)c) || childSeenMismatch || (void*)c == creatingChildOf) fprintf(OUT, "%d I %d fail:child-identity\n", step, k);
        else { instp[k] = c; fprintf(OUT, "%d I %d ok\n", step, k); } }
      else fprintf(OUT, "%d I %d fail:%s\n", step, k, trapName(trapCode));
      creatingChildOf = NULL; break; }
    case 'I': { int k = atoi(tok[1]); cur = k; memset(&insts[k], 0, sizeof insts[k]);
      instp[k] = &insts[k];
      if (setjmp(jb) == 0) { @M@Instantiate(&insts[k], resolve); fprintf(OUT, "%d I %d ok\n", step, k); }
      else fprintf(OUT, "%d I %d fail:%s\n", step, k, trapName(trapCode));
      break; }
    case 'c': { U64 a[256]; int i; if (nt - 3 > 256) { fprintf(stderr, "driver: too many call arguments\n"); return 2; } for (i = 3; i < nt; i++) a[i - 3] = strtoull(tok[i], NULL, 0); doCall(step, atoi(tok[1]), atoi(tok[2]), a, nt - 3); break; }
    case 'z': { /* z <inst> <fk> <args>: the call runs while large reallocations fail (the host is out of memory) */
      U64 a[16]; int i, inj = -1; for (i = 3; i < nt && i < 19; i++) a[i - 3] = strtoull(tok[i], NULL, 0);
#ifdef VERIF_WRAP_REALLOC
      failedReallocs = 0; failRealloc = 1;
#endif
      doCall(step, atoi(tok[1]), atoi(tok[2]), a, nt - 3);
#ifdef VERIF_WRAP_REALLOC
      failRealloc = 0; inj = failedReallocs;
#endif
      fprintf(OUT, "%d z injected=%d\n", step, inj); break; }
    case 'x': { int inst = atoi(tok[1]), fk = atoi(tok[2]), ns = nt - 3, idx[8] = {0}, s[8], i, k; U64 a[8];
      for (i = 0; i < ns; i++) s[i] = atoi(tok[3 + i]);
      if (ns == 0) { doCall(step, inst, fk, a, 0); break; }
      for (;;) { for (i = 0; i < ns; i++) a[i] = sets[s[i]][idx[i]]; doCall(step, inst, fk, a, ns);
        k = ns - 1; while (k >= 0) { idx[k]++; if (idx[k] < setN[s[k]]) break; idx[k] = 0; k--; } if (k < 0) break; }
      break; }
    case 'U': { /* the export name table of the instance (common.funcExports, what thread-spawn searches): every function export is
                   listed under exactly its name, with a non-NULL function, and the table is NULL-terminated */
      wasmFuncExport* fe = instp[atoi(tok[1])]->common.funcExports; int i, bad = -1, n = 0;
      for (i = 0; i < NEXPNAMES && bad < 0; i++) { wasmFuncExport* e = fe; int found = 0; for (; e && e->name; e++) if (strcmp(e->name, expNames[i]) == 0 && e->func) found++; if (found < 1) bad = i; }
      { wasmFuncExport* e = fe; for (; e && e->name; e++) n++; }
      if (bad < 0 && n == NEXPNAMES) fprintf(OUT, "%d U ok\n", step); else fprintf(OUT, "%d U BAD export %d not listed under its name (table has %d entries, module has %d function exports)\n", step, bad, n, NEXPNAMES);
      break; }
    case 'V': { /* structural invariant of a memory descriptor at a quiescent point: the allocation backs the current size (and, for a
                   shared memory, the declared maximum, which the runtime reserves up front): V <inst> <memref> */
      wasmMemory* m = getMem(atoi(tok[1]), atoi(tok[2])); size_t need = (size_t)(m->shared ? m->maxPages : m->pages) * 65536u, have = m->data ? malloc_usable_size(m->data) : 0;
      if (need == 0 || have >= need) fprintf(OUT, "%d V ok\n", step); else fprintf(OUT, "%d V BAD pages=%u max=%u shared=%d allocation=%lu needed=%lu\n", step, m->pages, m->maxPages, (int)m->shared, (unsigned long)have, (unsigned long)need);
      break; }
    case 'm': memHash(getMem(atoi(tok[1]), atoi(tok[2])), step); break;
    case 'w': { wasmMemory* m = getMem(atoi(tok[1]), atoi(tok[2])); unsigned long a = strtoul(tok[3], NULL, 0), n = strtoul(tok[4], NULL, 0), i;
      fprintf(OUT, "%d w %lu ", step, a); for (i = a; i < a + n; i++) fprintf(OUT, "%02x", m->data[i]); fprintf(OUT, "\n"); break; }
    case 'P': { wasmMemory* m = getMem(atoi(tok[1]), atoi(tok[2])); unsigned long a = strtoul(tok[3], NULL, 0); size_t i, n = nt > 4 ? strlen(tok[4]) / 2 : 0;
      for (i = 0; i < n; i++) { int h = tok[4][2 * i], l = tok[4][2 * i + 1]; h = h <= '9' ? h - '0' : (h | 32) - 'a' + 10; l = l <= '9' ? l - '0' : (l | 32) - 'a' + 10; m->data[a + i] = (U8)(h * 16 + l); } fprintf(OUT, "%d P ok\n", step); break; }
    case 't': fprintf(OUT, "%d t n=%lu h=0x%llx [%s]\n", step, traceN, traceH, traceLen ? traceBuf : "");
      traceN = 0; traceH = W2C2_LL(0xcbf29ce484222325U); traceLen = 0; traceItems = 0; traceBuf[0] = 0; break;
    case 'T': { wasmTable* t = getTbl(atoi(tok[1]), atoi(tok[2])); U32 i; fprintf(OUT, "%d T size=%u ", step, t->size);
      for (i = 0; i < t->size; i++) fputc(t->data[i] ? '1' : '0', OUT); fprintf(OUT, "\n"); break; }
    case 'G': fprintf(OUT, "%d G 0x%llx\n", step, getGlobal(atoi(tok[1]))); break;
    case 'k': { wasmMemory* m = getMem(atoi(tok[1]), atoi(tok[2])); unsigned long a = strtoul(tok[3], NULL, 0), n = strtoul(tok[4], NULL, 0), i; U32 c = 0xffffffffu; int b;
      static U32 crcT[256]; if (!crcT[1]) { U32 t_, j_; for (j_ = 0; j_ < 256; j_++) { t_ = j_; for (b = 0; b < 8; b++) t_ = (t_ >> 1) ^ (0xedb88320u & (0u - (t_ & 1u))); crcT[j_] = t_; } }
      for (i = a; i < a + n; i++) c = crcT[(c ^ m->data[i]) & 0xff] ^ (c >> 8);
      fprintf(OUT, "%d k 0x%x\n", step, c ^ 0xffffffffu); break; }
@WASICASES@
    default: fprintf(OUT, "%d ?\n", step);
    }
  }
  return 0;
}
'''


WASI_CASES = r"""
    case 'A': case 'E': { int i, n = nt - 1; char** v = (char**)calloc((size_t)n + 1, sizeof(char*));
      for (i = 0; i < n; i++) { size_t L = strlen(tok[1 + i]) / 2, j; if (tok[1 + i][0] == '-') L = 0; v[i] = (char*)malloc(L + 1);
        for (j = 0; j < L; j++) { unsigned x; sscanf(tok[1 + i] + 2 * j, "%2x", &x); v[i][j] = (char)x; } v[i][L] = 0; }
      v[n] = NULL; if (tok[0][0] == 'A') { wasiArgc = n; wasiArgv = v; } else wasiEnvp = v;
      fprintf(OUT, "%d %c %d\n", step, tok[0][0], n); break; }
    case 'W': { static char* none[1] = {NULL}; bool ok = wasiInit(wasiArgc, wasiArgv ? wasiArgv : none, wasiEnvp ? wasiEnvp : none);
      fprintf(OUT, "%d W %d\n", step, (int)ok); break; }
    case 'D': { size_t L = strlen(tok[1]) / 2, j; char* pth = (char*)malloc(L + 1); U32 fd = 0; bool ok;
      for (j = 0; j < L; j++) { unsigned x; sscanf(tok[1] + 2 * j, "%2x", &x); pth[j] = (char)x; } pth[L] = 0;
      /* "D <path> native": the embedder registers the pre-open together with a native descriptor it opened itself (public API) */
      ok = wasiFileDescriptorAdd(nt > 2 ? open(pth, O_RDONLY | O_DIRECTORY) : -1, pth, &fd); fprintf(OUT, "%d D %d %u\n", step, (int)ok, fd); free(pth); break; }
"""


WASI_CASES += r"""
    case 'H': { /* host view of a WASI descriptor: H <wasi fd> [chmod]  -> fstat of the native descriptor the table holds (times in ns);
                   with a second token the mode is toggled first (a status-only change: ctime moves, mtime does not) */
      WasiFileDescriptor dsc; struct stat hs; U32 wfd = (U32)strtoul(tok[1], NULL, 0);
      if (!wasiFileDescriptorGet(wfd, &dsc) || dsc.fd < 0 || fstat(dsc.fd, &hs) != 0) { fprintf(OUT, "%d H none\n", step); break; }
      if (nt > 2) { fchmod(dsc.fd, (hs.st_mode & 0777) ^ 0020); fstat(dsc.fd, &hs); }
      fprintf(OUT, "%d H %lld %lld %lld %lld %lld\n", step, (long long)hs.st_atim.tv_sec * 1000000000LL + hs.st_atim.tv_nsec,
              (long long)hs.st_mtim.tv_sec * 1000000000LL + hs.st_mtim.tv_nsec, (long long)hs.st_ctim.tv_sec * 1000000000LL + hs.st_ctim.tv_nsec,
              (long long)hs.st_size, (long long)hs.st_nlink); break; }
"""
WASI_CASES += open(os.path.join(env.VERIF, 'harness', 'wasi_readdir_case.inc')).read()
WASI_CASES += open(os.path.join(env.VERIF, 'harness', 'wasi_c15_cases.inc')).read()
WASI_PRE = open(os.path.join(env.VERIF, 'harness', 'wasi_c15_pre.inc')).read()
WASI_POST = open(os.path.join(env.VERIF, 'harness', 'wasi_c15_post.inc')).read()


def gen_driver(plan, module_name, header, multi=False, shared_ok=True, wasi=False):
    """C source of the driver for one module."""
    M = module_name
    o = [DRIVER_HEAD.replace('@HEADER@', header).replace('@M@', M)]
    # imports
    mems, tbls, globs = [], [], []
    for imp in plan.imports:
        sym = escape(imp['mod']) + '__' + escape(imp['name'])
        if imp['kind'] == 'func' and wasi and imp['mod'].startswith('wasi'):
            continue
        if imp['kind'] == 'func':
            fsym = (M + '_' + sym) if multi else sym
            ps, rs = imp['params'], imp['results']
            ret = CT[rs[0]] if rs else 'void'
            args = ''.join(', %s a%d' % (CT[p], i) for i, p in enumerate(ps))
            o.append('%s %s(void* inst%s) {' % (ret, fsym, args))
            o.append('  U64 v[%d]; U64 h;' % max(1, len(ps)))
            for i, p in enumerate(ps):
                conv = {'i32': '(U64)a%d', 'i64': 'a%d', 'f32': '(U64)f2i(a%d)', 'f64': 'd2j(a%d)'}[p] % i
                o.append('  v[%d] = %s;' % (i, conv))
            o.append('  hostLog(%d, inst, v, %d); h = mixv(%d, v, %d); (void)h;' % (imp['id'], len(ps), imp['id'], len(ps)))
            if rs:
                o.append({'i32': '  return (U32)((h >> 32) ^ h);', 'i64': '  return h;',
                          'f32': '  return (F32)(h & 0xffff);', 'f64': '  return (F64)(h & 0xffff);'}[rs[0]])
            o.append('}')
        elif imp['kind'] == 'memory':
            mems.append(imp)
        elif imp['kind'] == 'table':
            tbls.append(imp)
        else:
            globs.append(imp)
    o.append('static wasmMemory* impMem[%d]; static wasmTable impTbl[%d]; static U64 impGlob[%d];' % (
        max(1, len(mems)), max(1, len(tbls)), max(1, len(globs))))
    o.append('static void* resolve(const char* m, const char* n) {')
    for imp in plan.imports:
        if imp['kind'] == 'func':
            continue
        cond = 'strcmp(m, %s) == 0 && strcmp(n, %s) == 0' % (cstr(imp['mod']), cstr(imp['name']))
        if imp['kind'] == 'memory':
            o.append('  if (%s) return impMem[%d];' % (cond, imp['index']))
        elif imp['kind'] == 'table':
            o.append('  if (%s) return &impTbl[%d];' % (cond, imp['index']))
        else:
            o.append('  if (%s) return &impGlob[%d];' % (cond, imp['index']))
    o.append('  fprintf(stderr, "unresolved import %s %s\\n", m, n); return NULL;\n}')
    o.append('static void initImports(void) {')
    for imp in mems:
        mx = imp['max'] if imp['max'] is not None else 65535
        o.append('  impMem[%d] = wasmMemoryAllocate(%d, %d, %s);' % (imp['index'], imp['min'], mx,
                                                                   'true' if imp['shared'] else 'false'))
    for imp in tbls:
        mx = imp['max'] if imp['max'] is not None else 0xffffffff
        o.append('  wasmTableAllocate(&impTbl[%d], %d, %uu);' % (imp['index'], imp['min'], mx))
    for imp in globs:
        v = int(imp['init'])
        if imp['type'] in ('i32', 'f32'):
            o.append('  { U32 x = 0x%xu; memcpy(&impGlob[%d], &x, 4); }' % (v & 0xffffffff, imp['index']))
        else:
            o.append('  impGlob[%d] = W2C2_LL(0x%xU);' % (imp['index'], v & 0xffffffffffffffff))
    o.append('}')
    o.append('static U64 getGlobal(int k) {')
    o.append('  switch (k) {')
    for imp in globs:
        if imp['type'] in ('i32', 'f32'):
            o.append('  case %d: { U32 x; memcpy(&x, &impGlob[%d], 4); return x; }' % (imp['index'], imp['index']))
        else:
            o.append('  case %d: return impGlob[%d];' % (imp['index'], imp['index']))
    o.append('  default: return 0; }\n}')
    # memory / table refs
    o.append('static wasmMemory* getMem(int inst, int ref) { (void)inst; switch (ref) {')
    for i, r in enumerate(plan.memrefs):
        if r['kind'] == 'import':
            o.append('  case %d: return impMem[%d];' % (i, r['index']))
        else:
            o.append('  case %d: return %s_%s(instp[inst]);' % (i, M, escape(r['name'])))
    o.append('  default: abort(); }\n}')
    o.append('static wasmTable* getTbl(int inst, int ref) { (void)inst; switch (ref) {')
    for i, r in enumerate(plan.tblrefs):
        if r['kind'] == 'import':
            o.append('  case %d: return &impTbl[%d];' % (i, r['index']))
        else:
            # tables are not exported by w2c2; a defined table is read through the instance field t<index>
            o.append('  case %d: return &instp[inst]->t%d;' % (i, r['index']))
    o.append('  default: abort(); }\n}')
    o.append('#define NEXPNAMES %d' % len(plan.exports))
    o.append('static const char* expNames[] = {%s 0};' % ''.join(cstr(e['name']) + ', ' for e in plan.exports))
    # thunks
    for k, e in enumerate(plan.exports):
        args = []
        for i, p in enumerate(e['params']):
            args.append({'i32': '(U32)a[%d]', 'i64': 'a[%d]', 'f32': 'i2f((U32)a[%d])', 'f64': 'j2d(a[%d])'}[p] % i)
        call = '%s_%s((Inst*)I%s)' % (M, escape(e['name']), ''.join(', ' + a for a in args))
        if e['results']:
            r = e['results'][0]
            call = {'i32': '*r = (U64)(U32)%s;', 'i64': '*r = %s;', 'f32': '*r = (U64)f2i(%s);', 'f64': '*r = d2j(%s);'}[r] % call
        else:
            call += ';'
        o.append('static void th%d(void* I, const U64* a, U64* r) { (void)a; (void)r; %s }' % (k, call))
    o.append('static struct { void (*fn)(void*, const U64*, U64*); const char* ret; } thunks[] = {')
    for k, e in enumerate(plan.exports):
        o.append('  {th%d, "%s"},' % (k, e['results'][0] if e['results'] else 'v'))
    o.append('  {0, 0}};')
    if wasi:
        o.append(WASI_POST)
    tail = DRIVER_TAIL.replace('@M@', M).replace('@WASICASES@', WASI_CASES if wasi else '')
    if wasi:
        o.insert(1, WASI_PRE)
        o.insert(1, '#include <sys/stat.h>\n#include <fcntl.h>\n#include "wasi.h"\nstatic int wasiArgc; static char** wasiArgv; static char** wasiEnvp;\n'
                    'static wasmMemory* getMem(int inst, int ref);\n'
                    'wasmMemory* wasiMemory(void* instance) { int k = 0; if ((char*)instance >= (char*)insts && (char*)instance < (char*)(insts + NINST)) k = (int)((Inst*)instance - insts); return getMem(k, 0); }\n')
    tail = tail.replace('int main(int argc, char** argv) {\n', 'int main(int argc, char** argv) {\n  initImports();\n', 1)
    o.append(tail)
    return '\n'.join(o)


class Translated:
    def __init__(self, d, name, rc, err, files):
        self.dir, self.name, self.rc, self.err, self.files = d, name, rc, err, files


def translate(w2c2, wasm_bytes, d, name='m', opts=(), timeout=120, envx=None, outname=None):
    """Run the translator under test in directory d. Returns Translated."""
    os.makedirs(d, exist_ok=True)
    wp = os.path.join(d, name + '.wasm')
    with open(wp, 'wb') as f:
        f.write(wasm_bytes)
    outc = outname or (name + '.c')
    e = dict(env.SAN_ENV)
    if envx:
        e.update(envx)
    r = run([w2c2] + list(opts) + [wp, os.path.join(d, outc)], cwd=d, timeout=timeout, env=e)
    files = sorted(f for f in os.listdir(d) if f.endswith('.c') or f.endswith('.h') or f == 'datasegments')
    t = Translated(d, module_name_for(wp), r.rc if not r.timeout else 'timeout', r.err, files)
    t.out = r.out
    return t


BASE_INC = None


def base_include():
    return os.path.join(env.REPO, 'w2c2')


def compile_c(d, sources, exe, cc='gcc', flags=('-O0',), extra=(), timeout=600, link=()):
    cmd = [cc] + list(flags) + ['-w', '-I', base_include(), '-I', d] + list(extra) + list(sources) + ['-o', exe] + list(link) + ['-lm']
    return run(cmd, cwd=d, timeout=timeout)


def build_and_run(w2c2, wasm_bytes, plan, script, d, name='m', opts=(), cc='gcc', cflags=('-O0',), cdefs=(),
                  run_env=None, timeout=300, link=(), keep=False, translate_env=None):
    """Translate, compile with generated driver, run the script. Returns (stage, output_lines|message, Result)."""
    t = translate(w2c2, wasm_bytes, d, name, opts, envx=translate_env)
    if t.rc != 0:
        return ('translate', 'rc=%s stderr=%s' % (t.rc, t.err[-2000:]), t)
    M = t.name
    drv = os.path.join(d, 'driver.c')
    with open(drv, 'w') as f:
        f.write(gen_driver(plan, M, name + '.h', multi=('-m' in opts)))
    sp = os.path.join(d, 'script.txt')
    with open(sp, 'w') as f:
        f.write(script)
    srcs = [os.path.join(d, x) for x in t.files if x.endswith('.c')] + [drv]
    exe = os.path.join(d, 'prog')
    r = compile_c(d, srcs, exe, cc=cc, flags=cflags, extra=cdefs, link=link)
    if r.rc != 0:
        return ('compile', r.err[-4000:], r)
    e = dict(env.SAN_ENV)
    if run_env:
        e.update(run_env)
    r = run([exe, sp], cwd=d, timeout=timeout, env=e)
    if r.timeout:
        return ('run-timeout', r.out[-2000:], r)
    if r.rc != 0:
        return ('run', 'rc=%s\nstdout tail: %s\nstderr: %s' % (r.rc, r.out[-1500:], r.err[-3000:]), r)
    return ('ok', r.out.splitlines(), r)


def run_ref(wasm_bytes, plan, script, d, name='m', timeout=300, cfg_extra=None):
    os.makedirs(d, exist_ok=True)
    wp = os.path.join(d, name + '.ref.wasm')
    with open(wp, 'wb') as f:
        f.write(wasm_bytes)
    cp = os.path.join(d, name + '.cfg.json')
    with open(cp, 'w') as f:
        if cfg_extra:
            import json
            c = json.loads(plan.config_json())
            c.update(cfg_extra)
            f.write(json.dumps(c))
        else:
            f.write(plan.config_json())
    sp = os.path.join(d, name + '.script.txt')
    with open(sp, 'w') as f:
        f.write(script)
    r = run(['node', os.path.join(env.VERIF, 'harness', 'ref.cjs'), wp, cp, sp], timeout=timeout)
    if r.rc == 3:
        return ('invalid', r.out.strip(), r)
    if r.rc != 0 or r.timeout:
        return ('ref-fail', 'rc=%s %s %s' % (r.rc, r.out[-500:], r.err[-2000:]), r)
    return ('ok', r.out.splitlines(), r)


def validate_v8(wasm_bytes, d, name='v'):
    """True/False: does V8 accept the module?"""
    os.makedirs(d, exist_ok=True)
    wp = os.path.join(d, name + '.val.wasm')
    with open(wp, 'wb') as f:
        f.write(wasm_bytes)
    r = run(['node', '-e',
             'const b=require("fs").readFileSync(process.argv[1]);try{new WebAssembly.Module(b);console.log("OK")}catch(e){console.log("BAD "+e.message)}',
             wp], timeout=60)
    return r.out.startswith('OK'), r.out.strip()
