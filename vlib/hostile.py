"""Hostile but VALID module shapes for the translator-as-a-process checks (C10, C09, C20)."""
from .wasm import *
from . import wasm, gen

UTF8 = ['π', '日本語', 'naïve', '\U0001F600', 'Ω_Ω', 'á', 'ÿ', 'Āx', '￿', 'mixé_XX__é']
PUNCT = [chr(c) for c in range(1, 128) if not chr(c).isalnum()]


def tiny_func(m, k=0, export=None):
    return m.add_func([I32], [I32], [], [('local.get', 0), ('i32.const', k), ('i32.add',)], export=export)


def names_module(names, where, size_tag=''):
    """One module using each name as export / import module / import field / function name."""
    m = Module()
    if where == 'import':
        for i, n in enumerate(names):
            m.import_func(n, 'f%d' % i, [I32], [I32])
            m.import_func('m%d' % i, n, [], [])
        m.imports.append((names[0], 'glob', 'global', (I32, False)))
        m.imports.append((names[-1], names[0], 'global', (I64, True)))
        m.imports.append(('envmem', names[0], 'memory', (1, None, False)))
        m.imports.append((names[0], 'envtab', 'table', (4, None)))
        body = []
        for i in range(len(names)):
            body += [('i32.const', i), ('call', 2 * i), ('drop',), ('call', 2 * i + 1)]
        body += [('global.get', 0), ('drop',), ('global.get', 1), ('global.set', 1), ('i32.const', 0), ('i32.load', 2, 0), ('drop',),
                 ('i32.const', 0), ('memory.size',), ('i32.store', 2, 4), ('i32.const', 1), ('memory.grow',), ('drop',),
                 ('i32.const', 0), ('i32.const', 0), ('call_indirect', m.add_type([I32], [I32]), 0), ('drop',)]
        m.add_func([], [], [], body, export='run')
        m.elems.append((0, [('global.get', 0)], [0]))
        m.datas.append(dict(mode='active', offset=[('global.get', 0)], bytes=b'xy'))
    elif where == 'export':
        f = tiny_func(m)
        m.mems.append((1, None, False))
        for i, n in enumerate(names):
            m.exports.append((n, 'func', f))
        m.exports.append((names[0] + '_mem', 'memory', 0))
    elif where == 'funcname':
        m.func_names = {}
        for i, n in enumerate(names):
            f = tiny_func(m, i, export='e%d' % i if i % 2 else None)
            m.func_names[f] = n
        m.module_name = names[0]
    return m


def many_funcs(n, named='none'):
    m = Module()
    m.func_names = {} if named != 'none' else None
    for i in range(n):
        f = tiny_func(m, i, export=('e%d' % i) if i % 7 == 0 else None)
        if named == 'all' or (named == 'some' and i % 3 == 0):
            m.func_names[f] = 'fn_%d' % i
        elif named == 'dups':
            m.func_names[f] = 'dup%d' % (i % 3)
    return m


def name_relations(export_name):
    """-g decides per function whether its debug name may be used as the C symbol by comparing it with the symbols of the exports:
    debug names that are PREFIXES (every length, incl. ending inside an escape sequence), extensions by one character and case variants
    of the escaped export symbol, of the raw export name and of <module>_<symbol>."""
    from . import e2e
    m = Module()
    m.func_names = {}
    tiny_func(m, 0, export=export_name)
    esc = e2e.escape(export_name)
    rel = []
    for base in (esc, export_name, 'm_' + esc):
        rel += [base[:k] for k in range(1, len(base) + 1)] + [base + 'X', base + '_', base + '0', base.swapcase()]
    rel = [r for r in dict.fromkeys(rel) if '\0' not in r]
    for i, nm in enumerate(rel):
        f = tiny_func(m, i + 1, export=None)
        m.func_names[f] = nm
    return m


def many_locals(ngroups, per, mixed=True):
    m = Module()
    ts = [I32, I64, F32, F64]
    locs = [(per, ts[i % 4] if mixed else I32) for i in range(ngroups)]
    total = ngroups * per
    body = [('local.get', total), ('drop',), ('local.get', 1), ('drop',), ('local.get', 0)]
    m.add_func([I32], [I32], locs, body, export='f')
    return m


def many_labels(n):
    m = Module()
    body = []
    for i in range(n):
        body += [('block', None), ('local.get', 0), ('br_if', 0), ('end',)]
    body += [('local.get', 0)]
    m.add_func([I32], [I32], [], body, export='f')
    return m


def deep_nesting(depth, kind='block'):
    m = Module()
    body = []
    for i in range(depth):
        if kind == 'block':
            body.append(('block', I32 if i % 2 else None))
        elif kind == 'loop':
            body.append(('loop', None))
        else:
            body += [('local.get', 0), ('if', None)]
    body += [('local.get', 0), ('br_if', depth - 1)] if kind != 'block' else []
    for i in reversed(range(depth)):
        if kind == 'block' and i % 2:
            body.append(('i32.const', i))
            body.append(('end',))
            body.append(('drop',))
        else:
            body.append(('end',))
    body.append(('local.get', 0))
    m.add_func([I32], [I32], [], body, export='f')
    return m


def all_constructs():
    """One small valid module that contains every kind of section entry and every kind of immediate (all four constant types in
    global initialisers and in code, global.get initialisers, segment offsets, memarg, br_table, call_indirect, block types,
    passive and active data, element segments, start, data count, name section): every proper prefix of it is a truncated file that
    ends INSIDE each of these constructs at some length."""
    m = Module()
    m.import_func('env', 'host', [I32, F64], [I64])
    m.imports.append(('env', 'gbase', 'global', (I32, False)))
    m.imports.append(('env', 'tbl', 'table', (4, 8)))
    m.mems.append((1, 3, False))
    m.globals.append((I32, True, [('i32.const', -123456)]))
    m.globals.append((I64, False, [('i64.const', -0x123456789abcdef)]))
    m.globals.append((F32, True, [('f32.const', 0x40490fdb)]))
    m.globals.append((F64, False, [('f64.const', 0x400921fb54442d18)]))
    m.globals.append((I32, False, [('global.get', 0)]))
    t0 = m.add_type([], [I32])
    f1 = m.add_func([], [I32], [], [('i32.const', 1000000)])
    f2 = m.add_func([I32, F32], [F64], [(2, I64), (1, F64)],
                    [('block', F64), ('f64.const', 0x3ff8000000000000), ('local.get', 0), ('br_if', 0), ('drop',), ('local.get', 1), ('f64.promote_f32',), ('end',),
                     ('i64.const', 0x7fffffffffffffff), ('local.set', 2), ('f32.const', 0x7fc00001), ('drop',)], export='f2')
    f3 = m.add_func([I32], [I32], [],
                    [('block', None), ('block', None), ('block', None), ('local.get', 0), ('br_table', [0, 1, 2, 1], 2), ('end',), ('end',), ('end',),
                     ('local.get', 0), ('i32.load16_s', 1, 300), ('local.get', 0), ('call_indirect', t0, 0), ('i32.add',),
                     ('i32.const', 8), ('i32.const', 0), ('i32.const', 4), ('memory.init', 1), ('data.drop', 1),
                     ('i32.const', 0), ('i32.const', 8), ('i32.const', 4), ('memory.copy',), ('i32.const', 0), ('i32.const', 7), ('i32.const', 4), ('memory.fill',)], export='f3')
    st = m.add_func([], [], [], [('i32.const', 5), ('global.set', 1)])
    m.start = st
    m.exports.append(('memory', 'memory', 0))
    m.exports.append(('g2', 'global', 3))
    m.elems.append((0, [('i32.const', 1)], [f1, f1]))
    m.elems.append((0, [('global.get', 0)], [f1]))
    m.datas.append(dict(mode='active', offset=[('i32.const', 65530)], bytes=b'\x01\x02\x03\x04\x05'))
    m.datas.append(dict(mode='passive', bytes=b'passive!'))
    m.datas.append(dict(mode='active', offset=[('global.get', 0)], bytes=b'xyz', flag=2))
    m.datacount = True
    m.func_names = {f1: 'first', f2: 'second.with.dots', st: 'start'}
    return m


def deep_br(n=140):
    """n nested void blocks; in the innermost one a chain of `br_if k` for every depth k (label indices 0..n-1 in their MINIMAL encoding:
    one byte up to 127 - with bit 6 set from 64 on - two bytes beyond); a counter of the block ends passed tells where a branch landed"""
    m = Module()
    body = [('block', None)] * n
    for k in range(n):
        body += [('local.get', 0), ('i32.const', k), ('i32.eq',), ('br_if', k)]
    body += [('i32.const', 1000000), ('local.set', 1)]
    for j in range(n):
        body += [('end',), ('local.get', 1), ('i32.const', 1), ('i32.add',), ('local.set', 1)]
    body += [('local.get', 1)]
    m.add_func([I32], [I32], [(1, I32)], body, export='f')
    # the same with unconditional `br` in a br_table-free dispatcher: one function per interesting depth
    for k in (0, 1, 62, 63, 64, 65, 100, 126, 127, 128, 129, n - 1):
        if k < n:
            b2 = [('block', None)] * n + [('br', k)] + [('end',), ('local.get', 0), ('i32.const', 1), ('i32.add',), ('local.set', 0)] * n + [('local.get', 0)]
            m.add_func([I32], [I32], [], b2, export='br%d' % k)
    return m


def dense_switch(n):
    """what a compiler emits for a dense n-case switch: n nested blocks around one br_table, one arm after each end; plus two small
    functions so that -f splits the module over several files"""
    m = Module()
    body = [('block', None)] * n + [('local.get', 0), ('br_table', list(range(n)), n - 1)]
    for k in range(n):
        body += [('end',), ('i32.const', k * 7 + 1), ('return',)]
    m.add_func([I32], [I32], [], body, export='sw')
    m.add_func([I32], [I32], [], [('local.get', 0), ('i32.const', 3), ('i32.mul',)], export='triple')
    m.add_func([], [I32], [], [('i32.const', 5)], export='five')
    return m


def big_br_table(n):
    m = Module()
    body = [('block', None), ('block', None), ('block', None), ('local.get', 0),
            ('br_table', [i % 3 for i in range(n)], 1), ('end',), ('end',), ('end',), ('local.get', 0)]
    m.add_func([I32], [I32], [], body, export='f')
    return m


def big_data(nbytes, nseg=1, passive=False):
    m = Module()
    pages = (nbytes * nseg) // 65536 + 2
    m.mems.append((pages, None, False))
    for s in range(nseg):
        data = bytes((i * 7 + s) & 0xff for i in range(nbytes))
        if passive:
            m.datas.append(dict(mode='passive', bytes=data))
        else:
            m.datas.append(dict(mode='active', offset=[('i32.const', s * nbytes)], bytes=data))
    body = [('i32.const', 0), ('i32.const', 0), ('i32.const', 0), ('memory.init', 0)] if passive else []
    m.add_func([], [], [], body, export='f')
    return m


def big_body(n):
    m = Module()
    body = [('local.get', 0)]
    for i in range(n):
        body += [('i32.const', i), ('i32.add',)]
    m.add_func([I32], [I32], [], body, export='f')
    return m


def many_things(n):
    m = Module()
    for i in range(n):
        m.types.append(((I32,) * (i % 5), (I64,) if i % 2 else ()))
    for i in range(n):
        m.globals.append((I64, True, [('i64.const', i)]))
    f = tiny_func(m)
    for i in range(n):
        m.exports.append(('x%d' % i, 'func', f))
    m.tables.append((n, None))
    for i in range(min(n, 200)):
        m.elems.append((0, [('i32.const', i)], [f] * (i % 4)))
    return m


def name_payload(entries):
    def nm(x):
        b = x.encode()
        return wasm.uleb(len(b), 0) + b
    sub = wasm.uleb(len(entries), 0) + b''.join(wasm.uleb(i, 0) + nm(n) for i, n in entries)
    return b'\x01' + wasm.uleb(len(sub), 0) + sub


def namesec_module(pos, payload):
    m = Module()
    m.import_func('env', 'h0', [], [])
    m.import_func('env', 'h1', [], [])
    for i in range(3):
        m.add_func([], [I32], [], [('i32.const', 40 + i)])
    m.exports.append(('x', 'func', 2))
    m.mems.append((1, None, False))
    m.datas.append(dict(mode='active', offset=[('i32.const', 0)], bytes=b'abc'))
    m.customs.append((pos, 'name', payload))
    return m


def shapes(rnd, tier='quick'):
    """yield (class, module) pairs."""
    q = tier == 'quick'
    out = []
    longs = [1, 2, 63, 64, 127, 128, 255, 256, 1000, 4096 if q else 20000]
    out.append(('names-utf8-export', names_module(UTF8, 'export')))
    out.append(('names-utf8-import', names_module(UTF8, 'import')))
    out.append(('names-utf8-funcname', names_module(UTF8, 'funcname')))
    out.append(('names-punct-export', names_module(PUNCT, 'export')))
    out.append(('names-punct-import', names_module(PUNCT, 'import')))
    out.append(('names-punct-funcname', names_module(PUNCT, 'funcname')))
    us = ['_', '__', '___', '____', 'X', 'XX', 'X_', '_X', 'a_b', 'a__b', 'a___b', 'X5F', 'f0', 'i', 'main', 'trap', 'U32', 'int']
    out.append(('names-underscore-export', names_module(us, 'export')))
    out.append(('names-underscore-import', names_module(us, 'import')))
    out.append(('names-underscore-funcname', names_module(us, 'funcname')))
    for L in longs:
        nm = ''.join(rnd.choice('abcXYZ_09é.') for _ in range(L))
        out.append(('names-long%d-export' % L, names_module([nm, nm + 'b'], 'export')))
        out.append(('names-long%d-import' % L, names_module([nm, nm + 'b'], 'import')))
        out.append(('names-long%d-funcname' % L, names_module([nm, nm + 'b'], 'funcname')))
    out.append(('names-nul', names_module(['a\0b', '\0', 'x\0'], 'export')))
    for n in ([1, 2, 100, 3000] if q else [1, 2, 100, 3000, 20000]):
        for named in ('none', 'all', 'some', 'dups'):
            out.append(('funcs%d-names-%s' % (n, named), many_funcs(n, named)))
    for en in ('a.b', '__x', 'foo-bar', 'a__b_', 'x y.z', 'h\u00e9', 'X', 'aX2Eb', '_', 'e.'):
        out.append(('namerel-%s' % ''.join(ch if ch.isalnum() else '_' for ch in en), name_relations(en)))
    out.append(('all-constructs', all_constructs()))
    # the threads-proposal instructions in expression context (modules of the C16 / C17 probes): the translator must survive them too
    try:
        from checks import c17 as _c17, c16 as _c16
        out.append(('threads-wait-notify-in-expressions', _c17.build_module()))
        out.append(('threads-atomics-all-flavours', _c16.build_module(True)[0]))
    except ImportError:
        pass
    # names of NON-function imports are passed to the resolver as C strings: conversion specifications, quotes, backslashes, trigraph-like text
    pm = Module()
    for i, nm in enumerate(['100%sure%n%n%s%s%s%s', '%d%d%d%d%d%d%d%d%d%d%n', 'q"uote', 'back\\slash', '??/', '%', 'a%5$s']):
        pm.imports.append(('env%' + 's' * (i % 2), nm, 'global', (I32, False)))
    pm.imports.append(('%s%s%s%n', 'mem%n', 'memory', (1, None, False)))
    pm.imports.append(('t%s', '%n%n%n%n%s', 'table', (2, None)))
    tiny_func(pm, 0, export='f')
    out.append(('names-format-nonfunc-import', pm))
    out.append(('locals-49000-onegroup', many_locals(1, 49000, mixed=False)))
    out.append(('locals-980groups', many_locals(980, 50)))
    out.append(('locals-5000groups-of-1', many_locals(5000, 1)))
    out.append(('labels-5000', many_labels(5000)))
    for dep in ([10, 500, 2000] if q else [10, 500, 2000, 5000]):
        for kind in ('block', 'loop', 'if'):
            out.append(('nesting-%s-%d' % (kind, dep), deep_nesting(dep, kind)))
    out.append(('deep-br-140', deep_br(140)))
    # typed blocks / loops / ifs whose body pushes nothing and ends dead, entered at operand-stack depths 0..24, with a consumer after
    # them - one module per depth (the translator's operand stack then has exactly that history) and one with all of them
    def dead_typed(depths):
        mm = Module()
        for k in depths:
            for kind in ('loop', 'block', 'if'):
                body = [('i32.const', j) for j in range(k)]
                if kind == 'if':
                    body += [('local.get', 0), ('if', I32), ('unreachable',), ('else',), ('unreachable',), ('end',)]
                elif kind == 'loop':
                    body += [('loop', I64), ('br', 0), ('end',), ('i32.wrap_i64',)]
                else:
                    body += [('block', F64), ('local.get', 0), ('return',), ('end',), ('i32.trunc_sat_f64_s',)]
                body += [('local.set', 1)] + [('drop',)] * k + [('local.get', 1)]
                mm.add_func([I32], [I32], [(1, I32)], body, export='%s%d' % (kind, k))
        return mm
    for k in (0, 1, 2, 3, 4, 7, 8, 11, 16, 17, 24):
        out.append(('dead-typed-body-depth%d' % k, dead_typed([k])))
    out.append(('dead-typed-body-all', dead_typed(range(0, 25))))
    out.append(('br_table-65000', big_br_table(65000)))
    out.append(('br_table-0', big_br_table(0)))
    for nb in ([0, 1, 17, 18, 19, 65536, 1 << 20] if q else [0, 1, 17, 18, 19, 65536, 1 << 20, 10 << 20]):
        out.append(('data-%d' % nb, big_data(nb)))
    out.append(('data-passive', big_data(4096, 3, passive=True)))
    out.append(('data-many-segments', big_data(10, 2000)))
    out.append(('body-100000-instr', big_body(100000)))
    out.append(('many-types-globals-exports', many_things(2000)))
    # name sections (only read with -g) at every section boundary, naming imports / defined functions / all, and malformed name
    # sections: a custom section can never make a module invalid, whatever it contains and wherever it sits
    for pos in (0, 1, 2, 3, 5, 7, 9, 10, 11, 99):
        for which, ent in (('imports', [(0, 'imp_a'), (1, 'imp_b')]), ('defined', [(3, 'def_c')]), ('all', [(0, 'a'), (1, 'b'), (2, 'c'), (3, 'd'), (4, 'e')])):
            out.append(('namesecpos-at%d-%s' % (pos, which), namesec_module(pos, name_payload(ent))))
    for pos in (2, 3, 10, 99):
        for tag, pl in (('junk', b'\xff\xfe\x01'), ('oob-index', name_payload([(99, 'z')])), ('unsorted', name_payload([(3, 'c'), (2, 'b')])),
                        ('dup-index', name_payload([(2, 'b'), (2, 'c')])), ('truncated-sub', b'\x01\x20\x01\x02\x01a'), ('big-sub', b'\x05\x7f'),
                        ('unknown-sub', b'\x07\x02ab' + name_payload([(2, 'b')])), ('empty', b''), ('count-too-big', b'\x01\x03\x7f\x00\x00'),
                        ('name-too-long', b'\x01\x04\x01\x02\x7fa'), ('local-names', b'\x02\x06\x01\x02\x01\x00\x01x' + name_payload([(2, 'b')]))):
            out.append(('namesecbad-%s-at%d' % (tag, pos), namesec_module(pos, pl)))
    m2 = namesec_module(99, name_payload([(2, 'first')]))
    m2.customs.append((99, 'name', name_payload([(3, 'second')])))
    out.append(('namesecpos-twice', m2))
    # ordinary generated programs
    for k in range(4 if q else 30):
        c = gen.build_program_module(env_rng(rnd, k), gen.Profile(), n_funcs=8)
        c.mod.func_names = {i + 2: 'gen_%d' % i for i in range(0, 8, 2)}
        out.append(('generated-program', c.mod))
    return out


def env_rng(rnd, k):
    import random
    return random.Random(rnd.getrandbits(64) ^ k)
