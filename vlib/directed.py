"""Directed single-instruction modules: one exported function per numeric opcode, integer-only boundary."""
from .wasm import *
from . import wasm, gen


def int_of(t):
    return I32 if t in (I32, F32) else I64


def to_val(t, i):
    """instructions converting local i (integer carrier) to value type t"""
    if t == F32:
        return [('local.get', i), ('f32.reinterpret_i32',)]
    if t == F64:
        return [('local.get', i), ('f64.reinterpret_i64',)]
    return [('local.get', i)]


def from_val(t):
    if t == F32:
        return [('i32.reinterpret_f32',)]
    if t == F64:
        return [('i64.reinterpret_f64',)]
    return []


def op_module(ops):
    """Module exporting one function per op name; params/results carried as integers."""
    m = Module()
    for n in ops:
        ps, rs = OPS[n][3], OPS[n][4]
        body = []
        for i, p in enumerate(ps):
            body += to_val(p, i)
        body.append((n,))
        body += from_val(rs[0])
        m.add_func([int_of(p) for p in ps], [int_of(rs[0])], [], body, export=n)
    return m


def operand_set(t, rnd, extra=6):
    base = {I32: gen.B32, I64: gen.B64, F32: gen.F32_SPECIAL, F64: gen.F64_SPECIAL}[t]
    bits = 32 if t in (I32, F32) else 64
    s = list(dict.fromkeys(base))
    for _ in range(extra):
        s.append(rnd.getrandbits(bits))
    return s


def sweep_script(plan, ops, rnd, sets=None, inst=0):
    """Script sweeping each op over the cross product of its operand sets.

    Returns (script_text, steps) where steps maps stepno -> meta for vlib.diff.compare.
    """
    sets = sets or {t: operand_set(t, rnd) for t in (I32, I64, F32, F64)}
    ids = {I32: 0, I64: 1, F32: 2, F64: 3}
    lines = []
    for t, sid in ids.items():
        lines.append('S %d %d %s' % (sid, len(sets[t]), ' '.join(hex(v) for v in sets[t])))
    lines.append('I %d' % inst)
    steps = {}
    step = 1
    evals = 0
    for n in ops:
        ps, rs = OPS[n][3], OPS[n][4]
        step += 1
        lines.append('x %d %d %s' % (inst, plan.fk(n), ' '.join(str(ids[p]) for p in ps)))
        meta = {'name': n}
        if n in gen.TRAPPING_TRUNC:
            meta['trunc_src'] = ps[0]
            meta['trunc_arg'] = 0
        if n in gen.NAN_NONDET:
            meta['nan'] = 'class'
            meta['ftype'] = rs[0]
        steps[step] = meta
        k = 1
        for p in ps:
            k *= len(sets[p])
        evals += k
    return '\n'.join(lines) + '\n', steps, evals, sets


NOBUILTIN_H = '''#undef __has_builtin
#define __has_builtin(x) 0
'''
