"""In-module sweeps: every numeric opcode applied to ALL 2^32 bit patterns of a 32-bit operand (or to a 2^32-point / smaller seeded
lattice of a 64-bit operand), executed inside the module by a counting loop that folds every result into a 64-bit digest.

One exported function per (opcode, swept operand position):  sw(lo:i64, stride:i64, cnt:i64, other:i64) -> i64
    x = lo; h = 0
    repeat cnt times:  r = OP(operands with the swept one = bits(x), the other one = bits(other));  h = mix(h, r);  x += stride
The same calls run in V8 (reference) and in the compiled output of every build; digests must be equal. A differing digest is
bisected over the chunk (count halves) down to ONE operand value, which is then reported as the witness — so a single wrong result
among 2^32 is both detected and located.

Determinism / false-alarm discipline:
 * results of opcodes whose NaN bits are not determined by the spec (NAN_NONDET) are folded as a canonical NaN when they are NaN
   (class is still compared); bit-determined ones (abs/neg/copysign/reinterpret/comparisons/conversions to int) are folded exactly;
 * trapping operand values are not applied (a trap would end the loop): the loop tests the spec's trap condition on the operand
   with integer comparisons on the BIT PATTERN (not with the float comparison under test) and folds a sentinel instead; the
   directed tables of C01/C02 own the trap boundary itself.
"""
from .wasm import *
from . import wasm, gen, e2e, env, diff

K1 = 0x9E3779B97F4A7C15
SENT = 0x7A5A7A5A7A5A7A5A
M64 = (1 << 64) - 1


def _s64(v):
    return wasm.to_signed(v & M64, 64)


def _bits_to(t, local):
    """instructions producing a value of type t from the i64 bit carrier in `local`"""
    if t == I32:
        return [('local.get', local), ('i32.wrap_i64',)]
    if t == I64:
        return [('local.get', local)]
    if t == F32:
        return [('local.get', local), ('i32.wrap_i64',), ('f32.reinterpret_i32',)]
    return [('local.get', local), ('f64.reinterpret_i64',)]


def _to_bits(t, canon):
    """instructions turning the result on the stack into an i64; canon: NaN -> canonical pattern (uses scratch locals 6/7)"""
    if t == I32:
        return [('i64.extend_i32_u',)]
    if t == I64:
        return []
    if t == F32:
        if canon:
            return [('local.tee', 6), ('local.get', 6), ('f32.ne',), ('if', 'i64'), ('i64.const', gen.CANON32), ('else',),
                    ('local.get', 6), ('i32.reinterpret_f32',), ('i64.extend_i32_u',), ('end',)]
        return [('i32.reinterpret_f32',), ('i64.extend_i32_u',)]
    if canon:
        return [('local.tee', 7), ('local.get', 7), ('f64.ne',), ('if', 'i64'), ('i64.const', _s64(gen.CANON64)), ('else',),
                ('local.get', 7), ('i64.reinterpret_f64',), ('end',)]
    return [('i64.reinterpret_f64',)]


def _trap_guard(op, pos, ps):
    """instructions leaving i32 1 on the stack when applying `op` would trap for the current operands (x = local 4 is the swept
    operand's bits, local 3 the other operand's bits), or None when the opcode never traps. Integer tests on bit patterns only."""
    def bits(i):   # local holding operand i's bits
        return 4 if i == pos else 3
    if op in gen.DIVREM:
        w = op[:3]
        z = [('local.get', bits(1))] + ([('i32.wrap_i64',), ('i32.eqz',)] if w == 'i32' else [('i64.eqz',)])
        if op.endswith('div_s'):
            if w == 'i32':
                ov = [('local.get', bits(0)), ('i32.wrap_i64',), ('i32.const', -0x80000000), ('i32.eq',),
                      ('local.get', bits(1)), ('i32.wrap_i64',), ('i32.const', -1), ('i32.eq',), ('i32.and',)]
            else:
                ov = [('local.get', bits(0)), ('i64.const', -(1 << 63)), ('i64.eq',), ('local.get', bits(1)), ('i64.const', -1), ('i64.eq',), ('i32.and',)]
            return z + ov + [('i32.or',)]
        return z
    if op in gen.TRAPPING_TRUNC:
        # operand is a float; trap iff NaN, inf or out of range. On the bit pattern: let a = bits & ~sign (magnitude, monotone in |x|).
        src = ps[0]
        dst_bits = 32 if op.startswith('i32') else 64
        signed = op.endswith('_s')
        b = bits(0)
        if src == F32:
            mag = [('local.get', b), ('i64.const', 0x7fffffff), ('i64.and',)]
            neg = [('local.get', b), ('i64.const', 0x80000000), ('i64.and',), ('i64.const', 0), ('i64.ne',)]
            one = 0x3f800000
            lim = wasm.f32_bits(float(2 ** (dst_bits - 1 if signed else dst_bits)))        # first magnitude that is out of range on the positive side
        else:
            mag = [('local.get', b), ('i64.const', 0x7fffffffffffffff), ('i64.and',)]
            neg = [('local.get', b), ('i64.const', -(1 << 63)), ('i64.and',), ('i64.const', 0), ('i64.ne',)]
            one = 0x3ff0000000000000
            lim = wasm.f64_bits(float(2 ** (dst_bits - 1 if signed else dst_bits)))
        # positive: trap iff mag >= lim.  negative: signed: trap iff x < -2^(n-1) - (fraction allowance): truncation toward zero means
        # x > -2^(n-1) - 1 is fine. For f32, and for f64 with n=64, -2^(n-1) is followed directly by values <= -2^(n-1) - ulp with
        # ulp >= 1, so: trap iff mag > lim.  For f64 -> i32 signed: values in (-2^31 - 1, -2^31) truncate to -2^31: trap iff x <= -2^31 - 1.
        # unsigned: negative x traps iff x <= -1.0, i.e. mag >= bits(1.0).
        if signed:
            if src == F64 and dst_bits == 32:
                neglim = wasm.f64_bits(2147483649.0)
                negtrap = mag + [('i64.const', _s64(neglim)), ('i64.ge_u',)]
            else:
                negtrap = mag + [('i64.const', _s64(lim)), ('i64.gt_u',)]
        else:
            negtrap = mag + [('i64.const', _s64(one)), ('i64.ge_u',)]
        postrap = mag + [('i64.const', _s64(lim)), ('i64.ge_u',)]
        return neg + [('if', 'i32')] + negtrap + [('else',)] + postrap + [('end',)]
    return None


def sweep_ops():
    """[(export name, opcode, swept position)] for every numeric opcode and operand position"""
    out = []
    for n in wasm.NUMERIC:
        for pos in range(len(OPS[n][3])):
            out.append(('%s@%d' % (n, pos), n, pos))
    return out


def build_module(entries):
    m = Module()
    for name, op, pos in entries:
        ps, rs = OPS[op][3], OPS[op][4]
        canon = op in gen.NAN_NONDET
        apply_ = []
        for i, p in enumerate(ps):
            apply_ += _bits_to(p, 4 if i == pos else 3)
        apply_ += [(op,)] + _to_bits(rs[0], canon)
        g = _trap_guard(op, pos, ps)
        if g is not None:
            apply_ = g + [('if', 'i64'), ('i64.const', _s64(SENT)), ('else',)] + apply_ + [('end',)]
        body = [('local.get', 0), ('local.set', 4), ('i64.const', _s64(K1)), ('local.set', 5),
                ('block', None), ('loop', None),
                ('local.get', 2), ('i64.eqz',), ('br_if', 1)] + apply_ + [
                ('local.get', 5), ('i64.xor',), ('i64.const', _s64(K1)), ('i64.mul',), ('local.tee', 5),
                ('local.get', 5), ('i64.const', 29), ('i64.shr_u',), ('i64.xor',), ('local.set', 5),
                ('local.get', 4), ('local.get', 1), ('i64.add',), ('local.set', 4),
                ('local.get', 2), ('i64.const', 1), ('i64.sub',), ('local.set', 2),
                ('br', 0), ('end',), ('end',),
                ('local.get', 5)]
        m.add_func([I64, I64, I64, I64], [I64], [(2, I64), (1, F32), (1, F64)], body, export=name)
    return m


def model_digest(values):
    """digest of a sequence of result bit patterns (python mirror of the in-module fold; used by the self-test of the bisection)"""
    h = K1
    for r in values:
        h = ((h ^ r) * K1) & M64
        h ^= h >> 29
    return h


class Sweep:
    """A compiled sweep module (one build) or the V8 reference, callable chunk-wise."""

    def __init__(self, m, plan, wasm_bytes, d):
        self.m, self.plan, self.b, self.d = m, plan, wasm_bytes, d
        self.n = 0

    def script(self, calls):
        lines = ['I 0']
        for name, lo, stride, cnt, other in calls:
            lines.append('c 0 %d 0x%x 0x%x 0x%x 0x%x' % (self.plan.fk(name), lo & M64, stride & M64, cnt & M64, other & M64))
        return '\n'.join(lines) + '\n'

    @staticmethod
    def results(lines):
        out = []
        for l in lines:
            p = diff.parse_call(l)
            if p:
                out.append(p[3])
        return out


class RefSweep(Sweep):
    def run(self, calls, timeout=3000):
        self.n += 1
        st, out, r = e2e.run_ref(self.b, self.plan, self.script(calls), self.d, name='r%d_%d' % (id(calls) % 100000, self.n), timeout=timeout)
        if st != 'ok':
            return None, '%s %s' % (st, str(out)[:600])
        return self.results(out), None


class CSweep(Sweep):
    def build(self, w2c2, cc, cflags, cdefs=(), opts=()):
        st, out, r = e2e.build_and_run(w2c2, self.b, self.plan, 'I 0\n', self.d, cc=cc, cflags=cflags, cdefs=cdefs, opts=opts)
        self.exe = self.d + '/prog'
        return st, out

    def run(self, calls, timeout=3000):
        import os
        self.n += 1
        sp = os.path.join(self.d, 's%d_%d.txt' % (id(calls) % 100000, self.n))
        with open(sp, 'w') as f:
            f.write(self.script(calls))
        r = env.run([self.exe, sp], cwd=self.d, timeout=timeout, env=dict(env.SAN_ENV))
        os.unlink(sp)
        if r.timeout:
            return None, 'timeout'
        res = self.results(r.out.splitlines())
        if r.rc != 0 and len(res) < len(calls):
            # a trap / abort inside a sweep is itself a divergence (the reference completed); keep what was printed
            res += ['abort:rc=%s:%s' % (r.rc, r.err.strip()[-200:])] * (len(calls) - len(res))
        return res, None


def bisect(ref, c, call):
    """call = (name, lo, stride, cnt, other) whose digests differ: narrow to one operand value. Returns (x, ref_result, c_result)."""
    name, lo, stride, cnt, other = call
    while cnt > 1:
        h = cnt // 2
        first = (name, lo, stride, h, other)
        ra, e1 = ref.run([first])
        rb, e2 = c.run([first])
        if e1 or e2 or not ra or not rb:
            return None
        if ra[0] != rb[0]:
            cnt = h
        else:
            lo, cnt = (lo + stride * h) & M64, cnt - h
    one = (name, lo, stride, 1, other)
    ra, _ = ref.run([one])
    rb, _ = c.run([one])
    if not ra or not rb or ra[0] == rb[0]:
        return None
    return lo, ra[0], rb[0]


def _others(t, rnd, n):
    """bit patterns for the operand that is not swept: boundary/special values of its type first, then seeded randoms"""
    base = {I32: gen.B32, I64: gen.B64, F32: gen.F32_SPECIAL, F64: gen.F64_SPECIAL}[t]
    bits = 32 if t in (I32, F32) else 64
    picks = [base[rnd.randrange(len(base))] for _ in range(max(0, n - 1))] + [rnd.getrandbits(bits)]
    return picks[:n] if n else [0]


def plan_calls(entries, tier, rnd):
    """-> list of (call, weight, exhaustive?) ; thorough: every 32-bit swept operand over ALL 2^32 patterns (8 contiguous chunks) for one
    value of the other operand + 2^28-point lattices for two more; 64-bit swept operands over 2^30-point lattices.
    quick: 2^22-point seeded lattices (odd stride: no operand value is visited twice)."""
    calls = []
    for name, op, pos in entries:
        ps = OPS[op][3]
        t = ps[pos]
        wide = t in (I64, F64)
        others = [0] if len(ps) == 1 else _others(ps[1 - pos], rnd, 2 if tier == 'quick' else 3)
        for oi, o in enumerate(others):
            lo = rnd.getrandbits(64)
            stride = rnd.getrandbits(64) | 1
            if tier == 'quick':
                calls.append(((name, lo, stride, 1 << 22, o), 1 << 22, False))
            elif wide:
                for c in range(4):
                    calls.append(((name, (lo + c * (stride << 28)) & M64, stride, 1 << 28, o), 1 << 28, False))
            elif oi == 0:
                for c in range(8):
                    calls.append(((name, c << 29, 1, 1 << 29, o), 1 << 29, True))
            else:
                calls.append(((name, lo, stride, 1 << 28, o), 1 << 28, False))
    return calls


def run_sweeps(chk, w2c2, prop, entries, builds, tag='sweep', slow_builds=()):
    """builds: [(tag, cc, cflags, cdefs)]; builds named in slow_builds (e.g. -O0) run a seeded eighth of the calls.
    Reports <prop>:sweep:<opcode> with the single operand value found by bisection."""
    rnd = env.rng(prop, tag)
    m = build_module(entries)
    b = m.encode()
    plan = e2e.Plan(m)
    d0 = env.subdir('%s-%s-ref' % (prop.lower(), tag))
    ok, msg = e2e.validate_v8(b, d0)
    if not ok:
        chk.inconclusive('sweep module rejected by V8: %s' % msg)
        return
    calls = plan_calls(entries, chk.tier, rnd)
    # jobs of similar weight
    target = max(1 << 22, sum(w for _, w, _ in calls) // 64)
    jobs, cur, cw = [], [], 0
    for c, w, ex in calls:
        cur.append(c)
        cw += w
        if cw >= target:
            jobs.append(cur)
            cur, cw = [], 0
    if cur:
        jobs.append(cur)
    ref = RefSweep(m, plan, b, d0)
    refres = {}

    def rjob(j):
        r, e = RefSweep(m, plan, b, env.subdir('%s-%s-ref-j%d' % (prop.lower(), tag, j))).run(jobs[j])
        return j, r, e
    for j, r, e in env.pmap(rjob, range(len(jobs))):
        if e or r is None or len(r) != len(jobs[j]):
            chk.inconclusive('reference sweep job %d failed: %s' % (j, e))
            continue
        refres[j] = r
    opsof = {name: op for name, op, pos in entries}
    files = {'module.wasm': b}
    applied = 0
    for btag, cc, cflags, cdefs in builds:
        d = env.subdir('%s-%s-%s' % (prop.lower(), tag, btag))
        c = CSweep(m, plan, b, d)
        from . import directed
        with open(d + '/nobuiltin.h', 'w') as f:
            f.write(directed.NOBUILTIN_H)
        st, out = c.build(w2c2, cc, cflags, cdefs)
        if st != 'ok':
            chk.violation('%s:sweep:%s:%s' % (prop, st, btag), 'sweep module failed at stage %s (%s): %s' % (st, btag, str(out)[:1500]), files)
            continue
        sel = sorted(refres)
        if btag in slow_builds:
            sel = [j for j in sel if (j + rnd.randrange(8)) % 8 == 0] or sel[:1]

        def cjob(j):
            cs = CSweep(m, plan, b, d)
            cs.exe = c.exe
            cs.n = j * 1000
            r, e = cs.run(jobs[j])
            return j, r, e
        for j, r, e in env.pmap(cjob, sel):
            if e or r is None:
                chk.inconclusive('sweep job %d on build %s: %s' % (j, btag, e))
                continue
            for call, ra, rb in zip(jobs[j], refres[j], r):
                applied += call[3]
                chk.distinct((btag,) + call)
                if ra == rb:
                    continue
                op = opsof[call[0]]
                w = bisect(ref, c, call) if not rb.startswith('abort') else None
                if w:
                    what = '%s swept operand %d: operand bits 0x%x (other operand 0x%x): reference %s, compiled (%s) %s [digests after one application]' % (
                        op, int(call[0].split('@')[1]), w[0] & (M64 if OPS[op][3][int(call[0].split('@')[1])] in (I64, F64) else 0xffffffff), call[4], w[1], btag, w[2])
                else:
                    what = '%s: digest over %d operand values from 0x%x stride 0x%x (other operand 0x%x) differs: reference %s, compiled (%s) %s' % (
                        call[0], call[3], call[1], call[2], call[4], ra, btag, rb)
                chk.violation('%s:sweep:%s' % (prop, op), what, dict(files, call=' '.join(hex(x) if isinstance(x, int) else x for x in call), build='%s %s %s' % (cc, cflags, cdefs)))
        chk.observe('sweep_builds', btag, 'union')
    chk.ev(applied)
    chk.observe('sweep_operand_values_applied', applied, 'set')
    chk.observe('sweep_entries', len(entries), 'set')
    chk.observe('sweep_calls_exhaustive_2^32', len(set(c[0][0] for c in calls if c[2])), 'set')
    chk.observe('sweep_calls', len(calls), 'set')
    chk.sample({'kind': 'sweep', 'first_calls': [list(map(str, c[0])) for c in calls[:2]], 'digests': [refres[j][:2] for j in sorted(refres)[:1]]})


# ---------------------------------------------------------------------------------------------------------------------------------
# Compile-time constant operands: what the C compiler makes of an opcode applied to constants it can see (constant folding of the
# emitted expression). The sweeps above feed run-time values and cannot observe this by construction.
def _trap_tuple(op, args, ps):
    """does op trap on these constant operand bit patterns? (spec rule, computed in python)"""
    import struct, math
    if op in gen.DIVREM:
        bits = 32 if op.startswith('i32') else 64
        b = args[1] & ((1 << bits) - 1)
        if b == 0:
            return True
        if op.endswith('div_s') and (args[0] & ((1 << bits) - 1)) == 1 << (bits - 1) and b == (1 << bits) - 1:
            return True
        return False
    if op in gen.TRAPPING_TRUNC:
        x = struct.unpack('<f', struct.pack('<I', args[0] & 0xffffffff))[0] if ps[0] == F32 else struct.unpack('<d', struct.pack('<Q', args[0] & M64))[0]
        if math.isnan(x) or math.isinf(x):
            return True
        t = math.trunc(x)
        nb = 32 if op.startswith('i32') else 64
        lo, hi = (-(1 << (nb - 1)), (1 << (nb - 1)) - 1) if op.endswith('_s') else (0, (1 << nb) - 1)
        return not (lo <= t <= hi)
    return False


def constfold_module(ops, sets, per_tuple=False):
    """one exported function per opcode: every non-trapping tuple of constant operands from the tables, results folded into a digest;
    per_tuple=True: one function per (opcode, tuple) returning the result bits (used to locate a differing tuple)"""
    m = Module()
    index = []
    for op in ops:
        ps, rs = OPS[op][3], OPS[op][4]
        canon = op in gen.NAN_NONDET
        tuples = [[]]
        for p in ps:
            tuples = [t + [v] for t in tuples for v in sets[p]]
        tuples = [t for t in tuples if not _trap_tuple(op, t, ps)]
        body = [('i64.const', _s64(K1)), ('local.set', 0)]
        for ti, t in enumerate(tuples):
            one = []
            for p, v in zip(ps, t):
                one.append(('%s.const' % p, v if p in (F32, F64) else wasm.to_signed(v, 32 if p == I32 else 64)))
            one.append((op,))
            bits = _to_bits(rs[0], canon)
            # _to_bits uses scratch locals 6 / 7: here they are locals 1 (f32) and 2 (f64)
            bits = [((i[0], {6: 1, 7: 2}[i[1]]) if i[0] in ('local.tee', 'local.get') and i[1] in (6, 7) else i) for i in bits]
            one += bits
            if per_tuple:
                m.add_func([], [I64], [(1, I64), (1, F32), (1, F64)], one, export='%s#%d' % (op, ti))
                index.append((op, ti, t))
            else:
                body += one + [('local.get', 0), ('i64.xor',), ('i64.const', _s64(K1)), ('i64.mul',), ('local.tee', 0), ('local.get', 0), ('i64.const', 29), ('i64.shr_u',), ('i64.xor',), ('local.set', 0)]
        if not per_tuple:
            body += [('local.get', 0)]
            m.add_func([], [I64], [(1, I64), (1, F32), (1, F64)], body, export=op)
            index.append((op, len(tuples), None))
    return m, index


def run_constfold(chk, w2c2, prop, ops, builds, rnd):
    from . import directed
    sets = {t: directed.operand_set(t, rnd, extra=3) for t in (I32, I64, F32, F64)}
    # binary opcodes: a reduced table per operand keeps the cross product around a thousand tuples
    f32 = lambda x: wasm.f32_bits(x)
    f64 = lambda x: wasm.f64_bits(x)
    fl = [0.0, -0.0, 1.0, -1.0, 1.5, -5.5, 255.9, -2147483648.0, 2147483648.0, -9223372036854775808.0, 4294967296.0, 1e-40, float('inf'), float('-inf')]
    small = {I32: [0, 1, 0xffffffff, 0x80000000, 0x7fffffff, 31, 32, 33, 0x55555555, 0x10000, 0xfffffffe, 7, 0x80000001, 0x00ff00ff, rnd.getrandbits(32), rnd.getrandbits(32)],
             I64: [0, 1, M64, 1 << 63, (1 << 63) - 1, 63, 64, 65, 0x5555555555555555, 1 << 32, 0xffffffff, 7, (1 << 63) + 1, 0x20000000000001, rnd.getrandbits(64), rnd.getrandbits(64)],
             F32: [f32(x) for x in fl] + [0x7fc00000, 0x7fa00000, 0xffc00001, 0x7f7fffff, 0x00800000, f32(-123456.75)],
             F64: [f64(x) for x in fl] + [0x7ff8000000000000, 0x7ff4000000000000, 0xfff8000000000001, 0x7fefffffffffffff, 0x0010000000000000, f64(-123456.75)]}
    m, index = constfold_module(ops, small)
    b = m.encode()
    plan = e2e.Plan(m)
    d = env.subdir('%s-constfold' % prop.lower())
    script = 'I 0\n' + ''.join('c 0 %d\n' % plan.fk(op) for op, n, _ in index)
    st, ref, _ = e2e.run_ref(b, plan, script, d)
    if st != 'ok':
        chk.inconclusive('constant-operand module: reference failed (%s): %s' % (st, str(ref)[:300]))
        return
    total = sum(n for _, n, _ in index)
    for btag, cc, cflags, cdefs in builds:
        bd = d + '/' + btag
        import os
        os.makedirs(bd, exist_ok=True)
        with open(bd + '/nobuiltin.h', 'w') as f:
            f.write(directed.NOBUILTIN_H)
        st2, out, r = e2e.build_and_run(w2c2, b, plan, script, bd, cc=cc, cflags=cflags, cdefs=cdefs)
        files = {'module.wasm': b, 'script.txt': script, 'build.txt': '%s %s' % (cc, cflags)}
        if st2 != 'ok':
            from . import directed as _d
            chk.violation('%s:constfold:%s:%s' % (prop, st2, btag), 'constant-operand module failed at %s (%s): %s' % (st2, btag, str(out)[:1200]), files)
            continue
        chk.ev(total)
        chk.distinct(('constfold', btag))
        bad = [index[i - 1][0] for i in range(1, min(len(ref), len(out))) if ref[i] != out[i]]
        for op in bad[:3]:
            # locate the tuple: per-tuple module for this opcode only
            pm, pidx = constfold_module([op], small, per_tuple=True)
            pb = pm.encode()
            pplan = e2e.Plan(pm)
            pscript = 'I 0\n' + ''.join('c 0 %d\n' % pplan.fk('%s#%d' % (o, ti)) for o, ti, _ in pidx)
            pd = bd + '-locate-' + op.replace('.', '_')
            os.makedirs(pd, exist_ok=True)
            with open(pd + '/nobuiltin.h', 'w') as f:
                f.write(directed.NOBUILTIN_H)
            s1, pref, _ = e2e.run_ref(pb, pplan, pscript, pd)
            s2, pout, _ = e2e.build_and_run(w2c2, pb, pplan, pscript, pd, cc=cc, cflags=cflags, cdefs=cdefs)
            what = 'digest over %d constant tuples differs' % dict((o, n) for o, n, _ in index)[op]
            if s1 == 'ok' and s2 == 'ok':
                for i in range(1, min(len(pref), len(pout))):
                    if pref[i] != pout[i]:
                        o, ti, t = pidx[i - 1]
                        what = '%s(%s) with CONSTANT operands: reference %s, compiled (%s) %s' % (op, ', '.join(hex(x) for x in t), pref[i].split(' -> ')[-1], btag, pout[i].split(' -> ')[-1])
                        break
            chk.violation('%s:constfold:%s' % (prop, op), what, files)
    chk.observe('constfold_tuples', total, 'set')
    chk.observe('constfold_opcodes', len(index), 'set')
