"""Differential comparison of the C execution against the V8 reference execution of the same script."""
import re
from . import wasm

LINE = re.compile(r'^(\d+) (\w)( .*)?$')
CALL = re.compile(r'^(\d+) c (\d+)((?: 0x[0-9a-f]+)*) -> (.*)$')


def parse_call(line):
    m = CALL.match(line)
    if not m:
        return None
    args = [int(x, 16) for x in m.group(3).split()]
    return int(m.group(1)), int(m.group(2)), args, m.group(4)


def is_nan_result(res):
    """res like 'i32:0x7fc00000' interpreted by caller-provided float type."""
    return res


def result_bits(res):
    if ':' in res and not res.startswith('trap'):
        t, v = res.split(':', 1)
        return t, int(v, 16)
    return None, None


def compare(ref_lines, c_lines, steps, float_result=None):
    """Compare line by line.

    steps: dict stepno -> meta dict (keys used here: 'name', 'nan' ('class' => NaN results compared by class,
           'ftype' f32|f64 says how to read the integer result), 'trunc_src' (f32|f64: operand type of a trapping
           trunc whose operand is args[trunc_arg])).
    Returns list of (stepno, kind, ref, got).
    """
    out = []
    n = min(len(ref_lines), len(c_lines))
    pending_fconv = None
    for i in range(n):
        a, b = ref_lines[i], c_lines[i]
        if a == b:
            continue
        pa, pb = parse_call(a), parse_call(b)
        if pa and pb and pa[:3] == pb[:3]:
            step, fk, args, ra = pa
            rb = pb[3]
            meta = steps.get(step, {})
            # trap kind refinement: V8 does not distinguish NaN from out-of-range
            if ra == 'trap:fconv' and rb in ('trap:invalidconv', 'trap:overflow'):
                src = meta.get('trunc_src')
                if src:
                    v = args[meta.get('trunc_arg', 0)]
                    nan = wasm.is_nan32(v) if src == 'f32' else wasm.is_nan64(v)
                    want = 'trap:invalidconv' if nan else 'trap:overflow'
                    if rb != want:
                        out.append((step, 'trapcode', want, rb, i))
                    continue
                if meta.get('scratch_follows'):
                    # nested program: operand was teed into the scratch global, printed by the next call line
                    nxt = parse_call(c_lines[i + 1]) if i + 1 < n else None
                    nref = parse_call(ref_lines[i + 1]) if i + 1 < n else None
                    if nxt and nref and nxt[3] == nref[3]:
                        t, v = result_bits(nxt[3])
                        if v is not None:
                            src = meta.get('scratch_type_of', lambda v: 'f64')(v)
                            nan = wasm.is_nan64(v) if v >> 32 else wasm.is_nan32(v)
                            # f32 operands are stored zero-extended; a genuine f64 with zero high word is never NaN
                            want = 'trap:invalidconv' if nan else 'trap:overflow'
                            if rb != want:
                                out.append((step, 'trapcode', want, rb, i))
                            continue
                out.append((step, 'trapcode-unresolved', ra, rb, i))
                continue
            if meta.get('nan') == 'class':
                ta, va = result_bits(ra)
                tb, vb = result_bits(rb)
                if va is not None and vb is not None and ta == tb:
                    ft = meta.get('ftype')
                    isn = wasm.is_nan32 if ft == 'f32' else wasm.is_nan64
                    if isn(va) and isn(vb):
                        continue
            kind = 'value'
            if ra.startswith('trap') and rb.startswith('trap'):
                kind = 'trapcode'
            elif ra.startswith('trap'):
                kind = 'trap-missing'
            elif rb.startswith('trap'):
                kind = 'trap-spurious'
            out.append((step, kind, ra, rb, i))
        else:
            m = LINE.match(a)
            step = int(m.group(1)) if m else -1
            k = m.group(2) if m else '?'
            kind = {'m': 'mem', 'w': 'mem', 't': 'trace', 'T': 'table', 'G': 'global', 'I': 'instantiate'}.get(k, 'line')
            out.append((step, kind, a, b, i))
    if len(ref_lines) != len(c_lines):
        out.append((-1, 'length', str(len(ref_lines)), str(len(c_lines)), n))
    return out
