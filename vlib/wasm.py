"""WebAssembly binary encoder / decoder (stdlib only).

Covers exactly the feature set w2c2 supports: MVP, sign-extension,
sat-conversions, bulk memory (memory.init/copy/fill, data.drop), threads.

Instruction representation: a list of tuples  (name, imm...)
  block/loop/if : (name, blocktype)   blocktype: None | 'i32'|'i64'|'f32'|'f64'
  br/br_if      : (name, depth)
  br_table      : ('br_table', [depths...], default)
  call          : ('call', funcidx)      call_indirect: ('call_indirect', typeidx)
  local.*/global.* : (name, idx)
  loads/stores/atomics : (name, align, offset)
  consts        : ('i32.const', signed-or-unsigned int) ... floats are given as BIT PATTERNS (int)
  memory.init   : ('memory.init', dataidx)   data.drop: ('data.drop', dataidx)

Encoding policy: an `Enc` object decides how each LEB128 field is padded, so
that C08 can produce spec-equivalent encodings of the same module.
"""
import struct

I32, I64, F32, F64 = 'i32', 'i64', 'f32', 'f64'
VT = {I32: 0x7f, I64: 0x7e, F32: 0x7d, F64: 0x7c}
VT_R = {v: k for k, v in VT.items()}


# ---------------------------------------------------------------- LEB128
def uleb(v, pad_to=0):
    assert v >= 0
    out = bytearray()
    while True:
        b = v & 0x7f
        v >>= 7
        if v or len(out) + 1 < pad_to:
            out.append(b | 0x80)
        else:
            out.append(b)
            break
    return bytes(out)


def sleb(v, pad_to=0):
    out = bytearray()
    while True:
        b = v & 0x7f
        v >>= 7  # arithmetic shift for python ints
        done = (v == 0 and not (b & 0x40)) or (v == -1 and (b & 0x40))
        if done and len(out) + 1 >= pad_to:
            out.append(b)
            break
        out.append(b | 0x80)
    return bytes(out)


def to_signed(v, bits):
    v &= (1 << bits) - 1
    return v - (1 << bits) if v >> (bits - 1) else v


class Enc:
    """Encoding policy. pad(kind, nbytes_min, maxbytes) -> pad_to. locals_rnd: if set, local declaration vectors are written in an
    equivalent but non-canonical grouping (groups split, zero-count groups of arbitrary type inserted anywhere, also first)."""

    def __init__(self, padfn=None, locals_rnd=None):
        self.padfn = padfn
        self.locals_rnd = locals_rnd

    def locals(self, groups):
        r = self.locals_rnd
        if r is None:
            return list(groups)
        out = []
        types = ['i32', 'i64', 'f32', 'f64']
        if r.random() < 0.5:
            out.append((0, r.choice(types)))
        for c, t in groups:
            if c > 1 and r.random() < 0.4:
                k = r.randint(1, c - 1)
                out += [(k, t), (c - k, t)]
            else:
                out.append((c, t))
            if r.random() < 0.3:
                out.append((0, r.choice(types)))
        return out

    def u32(self, v, kind='idx'):
        p = self.padfn(kind, 5) if self.padfn else 0
        return uleb(v, p)

    def s32(self, v, kind='i32.const'):
        p = self.padfn(kind, 5) if self.padfn else 0
        return sleb(to_signed(v, 32), p)

    def s64(self, v, kind='i64.const'):
        p = self.padfn(kind, 10) if self.padfn else 0
        return sleb(to_signed(v, 64), p)

    def s33(self, v):
        return sleb(v, 0)


PLAIN = Enc()

ALL_PAD_KINDS = {'secsize', 'count', 'idx', 'funcidx', 'typeidx', 'label', 'align', 'offset', 'i32.const', 'i64.const', 'localcount',
                 'limit', 'namelen', 'bodysize', 'memidx', 'subop', 'tableidx'}


def rot_enc(k, rnd=None):
    """Encoding rotation for the differential checks: every 4th module (k % 4 == 3) is written with redundantly padded LEB128 fields
    (the reference engine gets the same bytes), because the semantic properties quantify over every valid encoding of a module."""
    if k % 4 != 3:
        return PLAIN
    import random
    r = rnd or random.Random(k * 7919 + 13)

    def padfn(kind, maxb):
        if kind not in ALL_PAD_KINDS:
            return 0
        x = r.random()
        return 0 if x < 0.5 else (maxb if x > 0.85 else r.randint(0, maxb))
    return Enc(padfn, locals_rnd=r)

# ---------------------------------------------------------------- opcode table
# name -> (prefix, code, immkind, params, results)
OPS = {}
BYCODE = {}


def _op(name, code, imm='', params=(), results=(), prefix=None):
    OPS[name] = (prefix, code, imm, tuple(params), tuple(results))
    BYCODE[(prefix, code)] = name


_op('unreachable', 0x00)
_op('nop', 0x01)
_op('block', 0x02, 'bt')
_op('loop', 0x03, 'bt')
_op('if', 0x04, 'bt')
_op('else', 0x05)
_op('end', 0x0b)
_op('br', 0x0c, 'l')
_op('br_if', 0x0d, 'l')
_op('br_table', 0x0e, 'lt')
_op('return', 0x0f)
_op('call', 0x10, 'f')
_op('call_indirect', 0x11, 'ci')
_op('drop', 0x1a)
_op('select', 0x1b)
_op('local.get', 0x20, 'x')
_op('local.set', 0x21, 'x')
_op('local.tee', 0x22, 'x')
_op('global.get', 0x23, 'x')
_op('global.set', 0x24, 'x')

LOADS = [
    ('i32.load', 0x28, I32, 4), ('i64.load', 0x29, I64, 8), ('f32.load', 0x2a, F32, 4), ('f64.load', 0x2b, F64, 8),
    ('i32.load8_s', 0x2c, I32, 1), ('i32.load8_u', 0x2d, I32, 1), ('i32.load16_s', 0x2e, I32, 2),
    ('i32.load16_u', 0x2f, I32, 2), ('i64.load8_s', 0x30, I64, 1), ('i64.load8_u', 0x31, I64, 1),
    ('i64.load16_s', 0x32, I64, 2), ('i64.load16_u', 0x33, I64, 2), ('i64.load32_s', 0x34, I64, 4),
    ('i64.load32_u', 0x35, I64, 4)]
STORES = [
    ('i32.store', 0x36, I32, 4), ('i64.store', 0x37, I64, 8), ('f32.store', 0x38, F32, 4), ('f64.store', 0x39, F64, 8),
    ('i32.store8', 0x3a, I32, 1), ('i32.store16', 0x3b, I32, 2), ('i64.store8', 0x3c, I64, 1),
    ('i64.store16', 0x3d, I64, 2), ('i64.store32', 0x3e, I64, 4)]
WIDTH = {}
for n, c, t, w in LOADS:
    _op(n, c, 'm', (I32,), (t,))
    WIDTH[n] = w
for n, c, t, w in STORES:
    _op(n, c, 'm', (I32, t), ())
    WIDTH[n] = w
_op('memory.size', 0x3f, 'z', (), (I32,))
_op('memory.grow', 0x40, 'z', (I32,), (I32,))
_op('i32.const', 0x41, 'i32', (), (I32,))
_op('i64.const', 0x42, 'i64', (), (I64,))
_op('f32.const', 0x43, 'f32', (), (F32,))
_op('f64.const', 0x44, 'f64', (), (F64,))

_num = [
    ('i32.eqz', 0x45, 'i', 'i'), ('i32.eq', 0x46, 'ii', 'i'), ('i32.ne', 0x47, 'ii', 'i'), ('i32.lt_s', 0x48, 'ii', 'i'),
    ('i32.lt_u', 0x49, 'ii', 'i'), ('i32.gt_s', 0x4a, 'ii', 'i'), ('i32.gt_u', 0x4b, 'ii', 'i'),
    ('i32.le_s', 0x4c, 'ii', 'i'), ('i32.le_u', 0x4d, 'ii', 'i'), ('i32.ge_s', 0x4e, 'ii', 'i'),
    ('i32.ge_u', 0x4f, 'ii', 'i'),
    ('i64.eqz', 0x50, 'j', 'i'), ('i64.eq', 0x51, 'jj', 'i'), ('i64.ne', 0x52, 'jj', 'i'), ('i64.lt_s', 0x53, 'jj', 'i'),
    ('i64.lt_u', 0x54, 'jj', 'i'), ('i64.gt_s', 0x55, 'jj', 'i'), ('i64.gt_u', 0x56, 'jj', 'i'),
    ('i64.le_s', 0x57, 'jj', 'i'), ('i64.le_u', 0x58, 'jj', 'i'), ('i64.ge_s', 0x59, 'jj', 'i'),
    ('i64.ge_u', 0x5a, 'jj', 'i'),
    ('f32.eq', 0x5b, 'ff', 'i'), ('f32.ne', 0x5c, 'ff', 'i'), ('f32.lt', 0x5d, 'ff', 'i'), ('f32.gt', 0x5e, 'ff', 'i'),
    ('f32.le', 0x5f, 'ff', 'i'), ('f32.ge', 0x60, 'ff', 'i'),
    ('f64.eq', 0x61, 'dd', 'i'), ('f64.ne', 0x62, 'dd', 'i'), ('f64.lt', 0x63, 'dd', 'i'), ('f64.gt', 0x64, 'dd', 'i'),
    ('f64.le', 0x65, 'dd', 'i'), ('f64.ge', 0x66, 'dd', 'i'),
    ('i32.clz', 0x67, 'i', 'i'), ('i32.ctz', 0x68, 'i', 'i'), ('i32.popcnt', 0x69, 'i', 'i'),
    ('i32.add', 0x6a, 'ii', 'i'), ('i32.sub', 0x6b, 'ii', 'i'), ('i32.mul', 0x6c, 'ii', 'i'),
    ('i32.div_s', 0x6d, 'ii', 'i'), ('i32.div_u', 0x6e, 'ii', 'i'), ('i32.rem_s', 0x6f, 'ii', 'i'),
    ('i32.rem_u', 0x70, 'ii', 'i'), ('i32.and', 0x71, 'ii', 'i'), ('i32.or', 0x72, 'ii', 'i'),
    ('i32.xor', 0x73, 'ii', 'i'), ('i32.shl', 0x74, 'ii', 'i'), ('i32.shr_s', 0x75, 'ii', 'i'),
    ('i32.shr_u', 0x76, 'ii', 'i'), ('i32.rotl', 0x77, 'ii', 'i'), ('i32.rotr', 0x78, 'ii', 'i'),
    ('i64.clz', 0x79, 'j', 'j'), ('i64.ctz', 0x7a, 'j', 'j'), ('i64.popcnt', 0x7b, 'j', 'j'),
    ('i64.add', 0x7c, 'jj', 'j'), ('i64.sub', 0x7d, 'jj', 'j'), ('i64.mul', 0x7e, 'jj', 'j'),
    ('i64.div_s', 0x7f, 'jj', 'j'), ('i64.div_u', 0x80, 'jj', 'j'), ('i64.rem_s', 0x81, 'jj', 'j'),
    ('i64.rem_u', 0x82, 'jj', 'j'), ('i64.and', 0x83, 'jj', 'j'), ('i64.or', 0x84, 'jj', 'j'),
    ('i64.xor', 0x85, 'jj', 'j'), ('i64.shl', 0x86, 'jj', 'j'), ('i64.shr_s', 0x87, 'jj', 'j'),
    ('i64.shr_u', 0x88, 'jj', 'j'), ('i64.rotl', 0x89, 'jj', 'j'), ('i64.rotr', 0x8a, 'jj', 'j'),
    ('f32.abs', 0x8b, 'f', 'f'), ('f32.neg', 0x8c, 'f', 'f'), ('f32.ceil', 0x8d, 'f', 'f'), ('f32.floor', 0x8e, 'f', 'f'),
    ('f32.trunc', 0x8f, 'f', 'f'), ('f32.nearest', 0x90, 'f', 'f'), ('f32.sqrt', 0x91, 'f', 'f'),
    ('f32.add', 0x92, 'ff', 'f'), ('f32.sub', 0x93, 'ff', 'f'), ('f32.mul', 0x94, 'ff', 'f'), ('f32.div', 0x95, 'ff', 'f'),
    ('f32.min', 0x96, 'ff', 'f'), ('f32.max', 0x97, 'ff', 'f'), ('f32.copysign', 0x98, 'ff', 'f'),
    ('f64.abs', 0x99, 'd', 'd'), ('f64.neg', 0x9a, 'd', 'd'), ('f64.ceil', 0x9b, 'd', 'd'), ('f64.floor', 0x9c, 'd', 'd'),
    ('f64.trunc', 0x9d, 'd', 'd'), ('f64.nearest', 0x9e, 'd', 'd'), ('f64.sqrt', 0x9f, 'd', 'd'),
    ('f64.add', 0xa0, 'dd', 'd'), ('f64.sub', 0xa1, 'dd', 'd'), ('f64.mul', 0xa2, 'dd', 'd'), ('f64.div', 0xa3, 'dd', 'd'),
    ('f64.min', 0xa4, 'dd', 'd'), ('f64.max', 0xa5, 'dd', 'd'), ('f64.copysign', 0xa6, 'dd', 'd'),
    ('i32.wrap_i64', 0xa7, 'j', 'i'), ('i32.trunc_f32_s', 0xa8, 'f', 'i'), ('i32.trunc_f32_u', 0xa9, 'f', 'i'),
    ('i32.trunc_f64_s', 0xaa, 'd', 'i'), ('i32.trunc_f64_u', 0xab, 'd', 'i'),
    ('i64.extend_i32_s', 0xac, 'i', 'j'), ('i64.extend_i32_u', 0xad, 'i', 'j'),
    ('i64.trunc_f32_s', 0xae, 'f', 'j'), ('i64.trunc_f32_u', 0xaf, 'f', 'j'),
    ('i64.trunc_f64_s', 0xb0, 'd', 'j'), ('i64.trunc_f64_u', 0xb1, 'd', 'j'),
    ('f32.convert_i32_s', 0xb2, 'i', 'f'), ('f32.convert_i32_u', 0xb3, 'i', 'f'),
    ('f32.convert_i64_s', 0xb4, 'j', 'f'), ('f32.convert_i64_u', 0xb5, 'j', 'f'), ('f32.demote_f64', 0xb6, 'd', 'f'),
    ('f64.convert_i32_s', 0xb7, 'i', 'd'), ('f64.convert_i32_u', 0xb8, 'i', 'd'),
    ('f64.convert_i64_s', 0xb9, 'j', 'd'), ('f64.convert_i64_u', 0xba, 'j', 'd'), ('f64.promote_f32', 0xbb, 'f', 'd'),
    ('i32.reinterpret_f32', 0xbc, 'f', 'i'), ('i64.reinterpret_f64', 0xbd, 'd', 'j'),
    ('f32.reinterpret_i32', 0xbe, 'i', 'f'), ('f64.reinterpret_i64', 0xbf, 'j', 'd'),
    ('i32.extend8_s', 0xc0, 'i', 'i'), ('i32.extend16_s', 0xc1, 'i', 'i'),
    ('i64.extend8_s', 0xc2, 'j', 'j'), ('i64.extend16_s', 0xc3, 'j', 'j'), ('i64.extend32_s', 0xc4, 'j', 'j'),
]
_T = {'i': I32, 'j': I64, 'f': F32, 'd': F64}
NUMERIC = []
for n, c, p, r in _num:
    _op(n, c, '', [_T[x] for x in p], [_T[x] for x in r])
    NUMERIC.append(n)
_sat = [('i32.trunc_sat_f32_s', 0, 'f', 'i'), ('i32.trunc_sat_f32_u', 1, 'f', 'i'), ('i32.trunc_sat_f64_s', 2, 'd', 'i'),
        ('i32.trunc_sat_f64_u', 3, 'd', 'i'), ('i64.trunc_sat_f32_s', 4, 'f', 'j'), ('i64.trunc_sat_f32_u', 5, 'f', 'j'),
        ('i64.trunc_sat_f64_s', 6, 'd', 'j'), ('i64.trunc_sat_f64_u', 7, 'd', 'j')]
for n, c, p, r in _sat:
    _op(n, c, '', [_T[x] for x in p], [_T[x] for x in r], prefix=0xfc)
    NUMERIC.append(n)
_op('memory.init', 8, 'mi', (I32, I32, I32), (), prefix=0xfc)
_op('data.drop', 9, 'x', (), (), prefix=0xfc)
_op('memory.copy', 10, 'zz', (I32, I32, I32), (), prefix=0xfc)
_op('memory.fill', 11, 'z', (I32, I32, I32), (), prefix=0xfc)

# threads
_op('memory.atomic.notify', 0x00, 'm', (I32, I32), (I32,), prefix=0xfe)
_op('memory.atomic.wait32', 0x01, 'm', (I32, I32, I64), (I32,), prefix=0xfe)
_op('memory.atomic.wait64', 0x02, 'm', (I32, I64, I64), (I32,), prefix=0xfe)
_op('atomic.fence', 0x03, 'z', (), (), prefix=0xfe)
WIDTH['memory.atomic.notify'] = 4
WIDTH['memory.atomic.wait32'] = 4
WIDTH['memory.atomic.wait64'] = 8
ATOMIC_LOADS = [('i32.atomic.load', 0x10, I32, 4), ('i64.atomic.load', 0x11, I64, 8), ('i32.atomic.load8_u', 0x12, I32, 1),
                ('i32.atomic.load16_u', 0x13, I32, 2), ('i64.atomic.load8_u', 0x14, I64, 1),
                ('i64.atomic.load16_u', 0x15, I64, 2), ('i64.atomic.load32_u', 0x16, I64, 4)]
ATOMIC_STORES = [('i32.atomic.store', 0x17, I32, 4), ('i64.atomic.store', 0x18, I64, 8), ('i32.atomic.store8', 0x19, I32, 1),
                 ('i32.atomic.store16', 0x1a, I32, 2), ('i64.atomic.store8', 0x1b, I64, 1),
                 ('i64.atomic.store16', 0x1c, I64, 2), ('i64.atomic.store32', 0x1d, I64, 4)]
for n, c, t, w in ATOMIC_LOADS:
    _op(n, c, 'm', (I32,), (t,), prefix=0xfe)
    WIDTH[n] = w
for n, c, t, w in ATOMIC_STORES:
    _op(n, c, 'm', (I32, t), (), prefix=0xfe)
    WIDTH[n] = w
ATOMIC_RMW = []
ATOMIC_CMPXCHG = []
_rmw_shapes = [('i32.atomic.rmw.%s', I32, 4), ('i64.atomic.rmw.%s', I64, 8), ('i32.atomic.rmw8.%s_u', I32, 1),
               ('i32.atomic.rmw16.%s_u', I32, 2), ('i64.atomic.rmw8.%s_u', I64, 1), ('i64.atomic.rmw16.%s_u', I64, 2),
               ('i64.atomic.rmw32.%s_u', I64, 4)]
_code = 0x1e
for opn in ('add', 'sub', 'and', 'or', 'xor', 'xchg'):
    for fmt, t, w in _rmw_shapes:
        n = fmt % opn
        _op(n, _code, 'm', (I32, t), (t,), prefix=0xfe)
        WIDTH[n] = w
        ATOMIC_RMW.append((n, opn, t, w))
        _code += 1
for fmt, t, w in _rmw_shapes:
    n = fmt % 'cmpxchg'
    _op(n, _code, 'm', (I32, t, t), (t,), prefix=0xfe)
    WIDTH[n] = w
    ATOMIC_CMPXCHG.append((n, t, w))
    _code += 1
assert _code == 0x4f


def natural_align(name):
    return {1: 0, 2: 1, 4: 2, 8: 3}[WIDTH[name]]


# ---------------------------------------------------------------- encoding of instructions
def enc_blocktype(bt, enc):
    if bt is None:
        return b'\x40'
    if isinstance(bt, str):
        return bytes([VT[bt]])
    return enc.s33(bt)  # type index (unsupported by w2c2; only for hostile inputs)


def enc_instr(ins, enc=PLAIN):
    name = ins[0]
    prefix, code, imm, _, _ = OPS[name]
    out = bytearray()
    if prefix is not None:
        out.append(prefix)
        out += enc.u32(code, 'subop')
    else:
        out.append(code)
    if imm == '':
        pass
    elif imm == 'bt':
        out += enc_blocktype(ins[1], enc)
    elif imm in ('l',):
        out += enc.u32(ins[1], 'label')
    elif imm == 'lt':
        out += enc.u32(len(ins[1]), 'count')
        for l in ins[1]:
            out += enc.u32(l, 'label')
        out += enc.u32(ins[2], 'label')
    elif imm == 'f':
        out += enc.u32(ins[1], 'funcidx')
    elif imm == 'ci':
        out += enc.u32(ins[1], 'typeidx')
        out += enc.u32(ins[2] if len(ins) > 2 else 0, 'tableidx')
    elif imm == 'x':
        out += enc.u32(ins[1], 'idx')
    elif imm == 'm':
        out += enc.u32(ins[1], 'align')
        out += enc.u32(ins[2], 'offset')
    elif imm == 'z':
        out.append(0)
    elif imm == 'zz':
        out += b'\0\0'
    elif imm == 'mi':
        out += enc.u32(ins[1], 'idx')
        out.append(0)
    elif imm == 'i32':
        out += enc.s32(ins[1])
    elif imm == 'i64':
        out += enc.s64(ins[1])
    elif imm == 'f32':
        out += struct.pack('<I', ins[1] & 0xffffffff)
    elif imm == 'f64':
        out += struct.pack('<Q', ins[1] & 0xffffffffffffffff)
    else:
        raise AssertionError(imm)
    return bytes(out)


def enc_code(instrs, enc=PLAIN):
    return b''.join(enc_instr(i, enc) for i in instrs)


# ---------------------------------------------------------------- Module
class Func:
    def __init__(self, type_idx, locals_=(), body=(), raw=None):
        self.type_idx = type_idx
        self.locals = list(locals_)  # list of (count, valtype)  -- declaration groups
        self.body = list(body)  # instruction tuples WITHOUT the final 'end'
        self.raw = raw  # if not None: raw bytes of (locals+code) used verbatim


class Module:
    def __init__(self):
        self.types = []  # (params tuple, results tuple)
        self.imports = []  # (mod, name, kind, desc)  kind in func/table/memory/global
        #   func: typeidx; table: (min,max|None); memory: (min,max|None,shared); global: (valtype, mut)
        self.funcs = []  # Func
        self.tables = []  # (min, max|None)
        self.mems = []  # (min, max|None, shared)
        self.globals = []  # (valtype, mut, initexpr[instr list])
        self.exports = []  # (name, kind, idx)
        self.start = None
        self.elems = []  # (tableidx, offset_expr, [funcidx])
        self.datas = []  # dict(mode='active'|'passive', mem=0, offset=expr, bytes=b'', flag=None)
        self.datacount = None  # None=auto (emit iff memory.init/data.drop used or forced)
        self.customs = []  # (after_section_id, name, payload) ; after_section_id 0 = before everything
        self.func_names = None  # {funcidx: name} -> emitted in 'name' custom section at the end
        self.module_name = None
        self.force_empty_sections = set()  # section ids to emit even when empty

    # -- helpers
    def add_type(self, params, results):
        t = (tuple(params), tuple(results))
        if t in self.types:
            return self.types.index(t)
        self.types.append(t)
        return len(self.types) - 1

    def n_imported(self, kind):
        return sum(1 for i in self.imports if i[2] == kind)

    def import_func(self, mod, name, params, results):
        assert not self.funcs, 'imports must precede funcs for index stability'
        self.imports.append((mod, name, 'func', self.add_type(params, results)))
        return self.n_imported('func') - 1

    def add_func(self, params, results, locals_=(), body=(), export=None):
        f = Func(self.add_type(params, results), locals_, body)
        self.funcs.append(f)
        idx = self.n_imported('func') + len(self.funcs) - 1
        if export:
            self.exports.append((export, 'func', idx))
        return idx

    def func_type(self, funcidx):
        ni = self.n_imported('func')
        if funcidx < ni:
            k = 0
            for imp in self.imports:
                if imp[2] == 'func':
                    if k == funcidx:
                        return self.types[imp[3]]
                    k += 1
        return self.types[self.funcs[funcidx - ni].type_idx]

    # -- encoding
    def encode(self, enc=PLAIN):
        out = bytearray(b'\0asm\x01\0\0\0')

        def name(s):
            b = s if isinstance(s, bytes) else s.encode('utf-8')
            return enc.u32(len(b), 'namelen') + b

        def limits(mn, mx, shared=False):
            if shared:
                return bytes([0x03]) + enc.u32(mn, 'limit') + enc.u32(mx, 'limit')
            if mx is None:
                return b'\0' + enc.u32(mn, 'limit')
            return b'\1' + enc.u32(mn, 'limit') + enc.u32(mx, 'limit')

        def expr(e):
            return enc_code(e, enc) + b'\x0b'

        def section(sid, payload):
            return bytes([sid]) + enc.u32(len(payload), 'secsize') + payload

        def vec(items, kind='count'):
            return enc.u32(len(items), kind) + b''.join(items)

        def customs_after(sid):
            for pos, nm, payload in self.customs:
                if pos == sid:
                    out.extend(section(0, name(nm) + payload))

        customs_after(0)
        # 1 type
        if self.types or 1 in self.force_empty_sections:
            out += section(1, vec([b'\x60' + vec([bytes([VT[p]]) for p in ps]) + vec([bytes([VT[r]]) for r in rs])
                                   for ps, rs in self.types]))
        customs_after(1)
        # 2 import
        if self.imports or 2 in self.force_empty_sections:
            items = []
            for mod, nm, kind, desc in self.imports:
                b = name(mod) + name(nm)
                if kind == 'func':
                    b += b'\0' + enc.u32(desc, 'typeidx')
                elif kind == 'table':
                    b += b'\1\x70' + limits(desc[0], desc[1])
                elif kind == 'memory':
                    b += b'\2' + limits(desc[0], desc[1], len(desc) > 2 and desc[2])
                elif kind == 'global':
                    b += b'\3' + bytes([VT[desc[0]], 1 if desc[1] else 0])
                items.append(b)
            out += section(2, vec(items))
        customs_after(2)
        # 3 function
        if self.funcs or 3 in self.force_empty_sections:
            out += section(3, vec([enc.u32(f.type_idx, 'typeidx') for f in self.funcs]))
        customs_after(3)
        # 4 table
        if self.tables or 4 in self.force_empty_sections:
            out += section(4, vec([b'\x70' + limits(mn, mx) for mn, mx in self.tables]))
        customs_after(4)
        # 5 memory
        if self.mems or 5 in self.force_empty_sections:
            out += section(5, vec([limits(m[0], m[1], len(m) > 2 and m[2]) for m in self.mems]))
        customs_after(5)
        # 6 global
        if self.globals or 6 in self.force_empty_sections:
            out += section(6, vec([bytes([VT[t], 1 if mut else 0]) + expr(init) for t, mut, init in self.globals]))
        customs_after(6)
        # 7 export
        if self.exports or 7 in self.force_empty_sections:
            kinds = {'func': 0, 'table': 1, 'memory': 2, 'global': 3}
            out += section(7, vec([name(nm) + bytes([kinds[k]]) + enc.u32(idx, 'idx') for nm, k, idx in self.exports]))
        customs_after(7)
        # 8 start
        if self.start is not None:
            out += section(8, enc.u32(self.start, 'funcidx'))
        customs_after(8)
        # 9 element
        if self.elems or 9 in self.force_empty_sections:
            items = []
            for tbl, off, fidx in self.elems:
                if tbl == 0:
                    b = b'\0' + expr(off)
                else:
                    b = b'\2' + enc.u32(tbl, 'tableidx') + expr(off) + b'\0'
                b += vec([enc.u32(f, 'funcidx') for f in fidx])
                items.append(b)
            out += section(9, vec(items))
        customs_after(9)
        # 12 datacount
        dc = self.datacount
        if dc is None:
            uses = any(ins[0] in ('memory.init', 'data.drop') for f in self.funcs if f.raw is None for ins in f.body)
            dc = len(self.datas) if uses else None
        elif dc is True:
            dc = len(self.datas)
        if dc is not None and dc is not False:
            out += section(12, enc.u32(dc, 'count'))
        customs_after(12)
        # 10 code
        if self.funcs or 10 in self.force_empty_sections:
            bodies = []
            for f in self.funcs:
                if f.raw is not None:
                    b = f.raw
                else:
                    b = vec([enc.u32(c, 'localcount') + bytes([VT[t]]) for c, t in enc.locals(f.locals)]) + enc_code(f.body, enc) + b'\x0b'
                bodies.append(enc.u32(len(b), 'bodysize') + b)
            out += section(10, vec(bodies))
        customs_after(10)
        # 11 data
        if self.datas or 11 in self.force_empty_sections:
            items = []
            for d in self.datas:
                flag = d.get('flag')
                if d['mode'] == 'passive':
                    b = b'\1'
                elif flag == 2 or d.get('mem', 0) != 0:
                    b = b'\2' + enc.u32(d.get('mem', 0), 'memidx') + expr(d['offset'])
                else:
                    b = b'\0' + expr(d['offset'])
                b += enc.u32(len(d['bytes']), 'count') + d['bytes']
                items.append(b)
            out += section(11, vec(items))
        customs_after(11)
        if self.func_names is not None or self.module_name is not None:
            payload = bytearray()
            if self.module_name is not None:
                sub = name(self.module_name)
                payload += b'\0' + enc.u32(len(sub), 'secsize') + sub
            if self.func_names is not None:
                sub = vec([enc.u32(i, 'funcidx') + name(n) for i, n in sorted(self.func_names.items())])
                payload += b'\1' + enc.u32(len(sub), 'secsize') + sub
            out += section(0, name('name') + bytes(payload))
        customs_after(99)
        return bytes(out)


# ---------------------------------------------------------------- decoder
class DecodeError(Exception):
    pass


class Reader:
    def __init__(self, data, pos=0, end=None):
        self.d = data
        self.p = pos
        self.end = len(data) if end is None else end

    def eof(self):
        return self.p >= self.end

    def byte(self):
        if self.p >= self.end:
            raise DecodeError('eof')
        b = self.d[self.p]
        self.p += 1
        return b

    def bytes(self, n):
        if self.p + n > self.end:
            raise DecodeError('eof')
        b = self.d[self.p:self.p + n]
        self.p += n
        return b

    def u32(self):
        r = 0
        s = 0
        while True:
            b = self.byte()
            r |= (b & 0x7f) << s
            s += 7
            if not b & 0x80:
                break
            if s > 35:
                raise DecodeError('leb too long')
        return r

    def sN(self, bits):
        r = 0
        s = 0
        while True:
            b = self.byte()
            r |= (b & 0x7f) << s
            s += 7
            if not b & 0x80:
                if b & 0x40:
                    r -= 1 << s
                break
            if s > bits + 7:
                raise DecodeError('leb too long')
        return r

    def name(self):
        n = self.u32()
        return bytes(self.bytes(n))


def dec_instr(r):
    """Decode one instruction at reader r."""
    op = r.byte()
    prefix = None
    if op in (0xfc, 0xfe):
        prefix = op
        op = r.u32()
    key = (prefix, op)
    if key not in BYCODE:
        raise DecodeError('unknown opcode %r' % (key,))
    name = BYCODE[key]
    imm = OPS[name][2]
    if imm == '':
        return (name,)
    if imm == 'bt':
        b = r.d[r.p]
        if b == 0x40:
            r.p += 1
            return (name, None)
        if b in VT_R:
            r.p += 1
            return (name, VT_R[b])
        return (name, r.sN(33))
    if imm == 'l':
        return (name, r.u32())
    if imm == 'lt':
        n = r.u32()
        ls = [r.u32() for _ in range(n)]
        return (name, ls, r.u32())
    if imm == 'f':
        return (name, r.u32())
    if imm == 'ci':
        t = r.u32()
        tb = r.u32()
        return (name, t, tb)
    if imm == 'x':
        return (name, r.u32())
    if imm == 'm':
        a = r.u32()
        o = r.u32()
        return (name, a, o)
    if imm == 'z':
        r.byte()
        return (name,)
    if imm == 'zz':
        r.byte()
        r.byte()
        return (name,)
    if imm == 'mi':
        x = r.u32()
        r.byte()
        return (name, x)
    if imm == 'i32':
        return (name, r.sN(32))
    if imm == 'i64':
        return (name, r.sN(64))
    if imm == 'f32':
        return (name, struct.unpack('<I', r.bytes(4))[0])
    if imm == 'f64':
        return (name, struct.unpack('<Q', r.bytes(8))[0])
    raise AssertionError(imm)


def dec_expr(r):
    """Decode instructions until the matching top-level end. Returns list without final end."""
    out = []
    depth = 0
    while True:
        ins = dec_instr(r)
        if ins[0] in ('block', 'loop', 'if'):
            depth += 1
        elif ins[0] == 'end':
            if depth == 0:
                return out
            depth -= 1
        out.append(ins)


def decode(data, keep_raw=False):
    """Decode a binary into a Module (custom sections kept with their position).

    Returns Module with extra attribute .raw_bodies (list of bytes: locals+code incl. final end)
    and .section_bounds [(id, start, end)].
    """
    if data[:8] != b'\0asm\x01\0\0\0':
        raise DecodeError('bad header')
    m = Module()
    m.raw_bodies = []
    m.section_bounds = []
    m.datacount = False
    r = Reader(data, 8)
    last = 0
    functypes = []

    def limits(r):
        f = r.byte()
        mn = r.u32()
        if f & 1:
            mx = r.u32()
        else:
            mx = None
        return mn, mx, bool(f & 2)

    while not r.eof():
        sid = r.byte()
        size = r.u32()
        start = r.p
        end = start + size
        if end > len(data):
            raise DecodeError('section exceeds file')
        m.section_bounds.append((sid, start, end))
        s = Reader(data, start, end)
        if sid == 0:
            nm = s.name()
            payload = bytes(data[s.p:end])
            if nm == b'name':
                try:
                    ns = Reader(data, s.p, end)
                    while not ns.eof():
                        sub = ns.byte()
                        sl = ns.u32()
                        se = ns.p + sl
                        if sub == 1:
                            cnt = ns.u32()
                            m.func_names_decoded = {}
                            for _ in range(cnt):
                                i = ns.u32()
                                m.func_names_decoded[i] = ns.name()
                        ns.p = se
                except DecodeError:
                    pass
            m.customs.append((last, nm, payload))
        elif sid == 1:
            for _ in range(s.u32()):
                if s.byte() != 0x60:
                    raise DecodeError('functype')
                ps = tuple(VT_R[s.byte()] for _ in range(s.u32()))
                rs = tuple(VT_R[s.byte()] for _ in range(s.u32()))
                m.types.append((ps, rs))
        elif sid == 2:
            for _ in range(s.u32()):
                mod = s.name()
                nm = s.name()
                k = s.byte()
                if k == 0:
                    m.imports.append((mod, nm, 'func', s.u32()))
                elif k == 1:
                    s.byte()
                    mn, mx, _ = limits(s)
                    m.imports.append((mod, nm, 'table', (mn, mx)))
                elif k == 2:
                    mn, mx, sh = limits(s)
                    m.imports.append((mod, nm, 'memory', (mn, mx, sh)))
                elif k == 3:
                    t = VT_R[s.byte()]
                    mut = s.byte()
                    m.imports.append((mod, nm, 'global', (t, bool(mut))))
                else:
                    raise DecodeError('import kind')
        elif sid == 3:
            functypes = [s.u32() for _ in range(s.u32())]
        elif sid == 4:
            for _ in range(s.u32()):
                s.byte()
                mn, mx, _ = limits(s)
                m.tables.append((mn, mx))
        elif sid == 5:
            for _ in range(s.u32()):
                m.mems.append(limits(s))
        elif sid == 6:
            for _ in range(s.u32()):
                t = VT_R[s.byte()]
                mut = s.byte()
                m.globals.append((t, bool(mut), dec_expr(s)))
        elif sid == 7:
            kinds = ['func', 'table', 'memory', 'global']
            for _ in range(s.u32()):
                nm = s.name()
                k = s.byte()
                m.exports.append((nm, kinds[k], s.u32()))
        elif sid == 8:
            m.start = s.u32()
        elif sid == 9:
            for _ in range(s.u32()):
                flag = s.u32()
                if flag == 0:
                    off = dec_expr(s)
                    m.elems.append((0, off, [s.u32() for _ in range(s.u32())]))
                elif flag == 2:
                    tbl = s.u32()
                    off = dec_expr(s)
                    s.byte()
                    m.elems.append((tbl, off, [s.u32() for _ in range(s.u32())]))
                else:
                    raise DecodeError('unsupported elem flag %d' % flag)
        elif sid == 12:
            m.datacount = s.u32()
        elif sid == 10:
            n = s.u32()
            if n != len(functypes):
                raise DecodeError('func/code count mismatch')
            for i in range(n):
                bs = s.u32()
                bstart = s.p
                bend = bstart + bs
                raw = bytes(data[bstart:bend])
                m.raw_bodies.append(raw)
                b = Reader(data, bstart, bend)
                locs = []
                for _ in range(b.u32()):
                    c = b.u32()
                    locs.append((c, VT_R[b.byte()]))
                if keep_raw:
                    f = Func(functypes[i], locs, [], raw=raw)
                else:
                    body = dec_expr(b)
                    if b.p != bend:
                        raise DecodeError('body size mismatch')
                    f = Func(functypes[i], locs, body)
                m.funcs.append(f)
                s.p = bend
        elif sid == 11:
            for _ in range(s.u32()):
                flag = s.u32()
                if flag == 0:
                    off = dec_expr(s)
                    d = dict(mode='active', mem=0, offset=off, flag=0)
                elif flag == 1:
                    d = dict(mode='passive')
                elif flag == 2:
                    mi = s.u32()
                    off = dec_expr(s)
                    d = dict(mode='active', mem=mi, offset=off, flag=2)
                else:
                    raise DecodeError('data flag')
                d['bytes'] = bytes(s.bytes(s.u32()))
                m.datas.append(d)
        else:
            raise DecodeError('unknown section %d' % sid)
        if sid != 0:
            if s.p != end and sid not in (10,):
                raise DecodeError('section %d not consumed exactly' % sid)
            last = sid
        r.p = end
    if functypes and not m.funcs:
        raise DecodeError('function section without code')
    return m


def uses_unsupported(m):
    """True if module uses features outside w2c2's supported set (multi-value etc.)."""
    for ps, rs in m.types:
        if len(rs) > 1:
            return True
    if len(m.mems) + m.n_imported('memory') > 1:
        return True
    if len(m.tables) + m.n_imported('table') > 1:
        return True
    for f in m.funcs:
        for ins in f.body:
            if ins[0] in ('block', 'loop', 'if') and isinstance(ins[1], int):
                return True
    return False


# ---------------------------------------------------------------- float helpers
def f32_bits(x):
    return struct.unpack('<I', struct.pack('<f', x))[0]


def f64_bits(x):
    return struct.unpack('<Q', struct.pack('<d', x))[0]


def bits_f32(b):
    return struct.unpack('<f', struct.pack('<I', b & 0xffffffff))[0]


def bits_f64(b):
    return struct.unpack('<d', struct.pack('<Q', b & 0xffffffffffffffff))[0]


def is_nan32(b):
    return (b & 0x7f800000) == 0x7f800000 and (b & 0x7fffff) != 0


def is_nan64(b):
    return (b & 0x7ff0000000000000) == 0x7ff0000000000000 and (b & 0xfffffffffffff) != 0
