"""Typed random program generator: builds *valid* function bodies by construction.

Obligations (so that the properties' own preconditions hold and the oracle is deterministic):
  * termination: every loop decrements a fuel local; every call is guarded by a global budget
  * memory accesses in bounds: (x & MASK) + static offset, MASK+offset+width <= 1 page
  * call_indirect only to in-range, initialised, signature-correct slots
  * single-result block types only
  * NaN discipline: optional canonicalisation after each NaN-nondeterministic instruction
"""
from .wasm import *
from . import wasm

B32 = [0, 1, 2, 3, 5, 7, 8, 15, 16, 17, 30, 31, 32, 33, 63, 64, 65, 127, 128, 255, 256, 0x7fff, 0x8000, 0xffff,
       0x10000, 0x7fffffff, 0x80000000, 0x80000001, 0xfffffffe, 0xffffffff, 0x7ffffffe, 0x55555555, 0xaaaaaaaa,
       0x40000000, 0xc0000000, 0x00ff00ff, 0xff00ff00, 0x12345678, 0x87654321, 0xfffffff0, 0xffff0000, 0x0000fff0,
       0x3fffffff, 0xbfffffff, 0x00800000, 0xff800000]
B64 = [0, 1, 2, 3, 7, 8, 31, 32, 33, 63, 64, 65, 127, 128, 255, 0xffff, 0x7fffffff, 0x80000000, 0xffffffff,
       0x100000000, 0x100000001, 0x7fffffffffffffff, 0x8000000000000000, 0x8000000000000001, 0xfffffffffffffffe,
       0xffffffffffffffff, 0x7ffffffffffffffe, 0x5555555555555555, 0xaaaaaaaaaaaaaaaa, 0x4000000000000000,
       0xc000000000000000, 0x00ff00ff00ff00ff, 0x123456789abcdef0, 0xfedcba9876543210, 0xffffffff00000000,
       0x00000000ffffffff, 0xffffffff80000000, 0x000000007fffffff, 0xfffffffffffffff0, 0x0010000000000000,
       0x001fffffffffffff, 0x0020000000000001, 0x8000000080000000, 0x00000001ffffffff, 0xffffffffffff0000,
       0x3fffffffffffffff]

F32_SPECIAL = [0x00000000, 0x80000000, 0x7f800000, 0xff800000, 0x7fc00000, 0xffc00000, 0x7fc00001, 0x7fa00000,
               0xffa00000, 0x7f800001, 0xff800001, 0x7fffffff, 0xffffffff, 0x7fe00000, 0x00000001, 0x80000001,
               0x007fffff, 0x807fffff, 0x00800000, 0x80800000, 0x7f7fffff, 0xff7fffff, 0x3f800000, 0xbf800000,
               0x3f000000, 0xbf000000, 0x3fc00000, 0xbfc00000, 0x40200000, 0xc0200000, 0x40600000, 0x4b000000,
               0x4b800000, 0x4b000001, 0xcb000001, 0x4effffff, 0x4f000000, 0x4f000001, 0xcf000000, 0xcf000001,
               0xceffffff, 0x4f7fffff, 0x4f800000, 0x4f800001, 0x5effffff, 0x5f000000, 0x5f000001, 0xdf000000,
               0xdf000001, 0xdeffffff, 0x5f7fffff, 0x5f800000, 0x5f800001, 0xbf7fffff, 0xbf800001, 0x3f7fffff,
               0x33800000, 0x40490fdb, 0x7f000000, 0x00400000, 0x3effffff, 0x3f000001, 0x4a800000, 0x4affffff,
               0x4b7fffff, 0xcb7fffff, 0x3fffffff, 0x40400000]
F64_SPECIAL = [0x0000000000000000, 0x8000000000000000, 0x7ff0000000000000, 0xfff0000000000000, 0x7ff8000000000000,
               0xfff8000000000000, 0x7ff8000000000001, 0x7ff4000000000000, 0xfff4000000000000, 0x7ff0000000000001,
               0xfff0000000000001, 0x7fffffffffffffff, 0xffffffffffffffff, 0x7ff8000020000000, 0x7ff0000000800000,
               0x7ff4000000800000, 0xfff0000000800000, 0x7ff0000020000000, 0x7ffc000000000000,
               0x0000000000000001, 0x8000000000000001, 0x000fffffffffffff, 0x800fffffffffffff, 0x0010000000000000,
               0x8010000000000000, 0x7fefffffffffffff, 0xffefffffffffffff, 0x3ff0000000000000, 0xbff0000000000000,
               0x3fe0000000000000, 0xbfe0000000000000, 0x3ff8000000000000, 0xbff8000000000000, 0x4004000000000000,
               0xc004000000000000, 0x400c000000000000, 0x4330000000000000, 0x4340000000000000, 0x4330000000000001,
               0xc330000000000001, 0x433fffffffffffff, 0x4340000000000001,
               # i32 boundaries: 2147483647, 2147483648, 2147483648+, -2147483648, -2147483649, -2147483648.x
               0x41dfffffffc00000, 0x41e0000000000000, 0x41e0000000000001, 0x41dfffffffffffff, 0xc1e0000000000000,
               0xc1e0000000200000, 0xc1e00000001fffff, 0xc1e0000000000001, 0xc1e0000000100000, 0xc1dfffffffffffff,
               # u32 boundaries: 4294967295, 4294967296, just below
               0x41efffffffe00000, 0x41f0000000000000, 0x41efffffffffffff, 0x41f0000000000001,
               # i64/u64 boundaries
               0x43dfffffffffffff, 0x43e0000000000000, 0x43e0000000000001, 0xc3e0000000000000, 0xc3e0000000000001,
               0xc3dfffffffffffff, 0x43efffffffffffff, 0x43f0000000000000, 0x43f0000000000001,
               # -1, -0.999.., -1.0000001
               0xbfefffffffffffff, 0xbff0000000000001, 0x3fefffffffffffff, 0x3fdfffffffffffff, 0x3fe0000000000001,
               0x400921fb54442d18, 0x3ca0000000000000, 0x47efffffe0000000, 0x47efffffefffffff, 0x47effffff0000000,
               0x36a0000000000000, 0x369fffffffffffff, 0x3690000000000000, 0x3690000000000001, 0x380fffffffffffff,
               0x3810000000000000]

CANON32 = 0x7fc00000
CANON64 = 0x7ff8000000000000

NAN_NONDET = set(n for n in wasm.NUMERIC if n.split('.')[0] in ('f32', 'f64') and n.split('.')[1] in (
    'add', 'sub', 'mul', 'div', 'sqrt', 'min', 'max', 'ceil', 'floor', 'trunc', 'nearest', 'demote_f64', 'promote_f32'))
TRAPPING_TRUNC = set(n for n in wasm.NUMERIC if '.trunc_f' in n)
DIVREM = set(n for n in wasm.NUMERIC if '.div_' in n or '.rem_' in n)

INT_OPS = [n for n in wasm.NUMERIC if all(t in (I32, I64) for t in OPS[n][3] + OPS[n][4])]
FLOAT_OPS = [n for n in wasm.NUMERIC if n not in INT_OPS]

BY_RESULT = {}
for _n in wasm.NUMERIC:
    BY_RESULT.setdefault(OPS[_n][4][0], []).append(_n)

MEM_MASK = 0x7ff8
MEM_MAXOFF = 0x7ff0


def const_instr(t, bits):
    return ('%s.const' % t, bits)


def _natural_align(name):
    import re
    m = re.search(r'(?:load|store|rmw)(8|16|32)', name)
    if m:
        return {'8': 0, '16': 1, '32': 2}[m.group(1)]
    if 'wait64' in name:
        return 3
    if 'wait32' in name or 'notify' in name:
        return 2
    return 3 if name.startswith(('i64', 'f64')) else 2


_ZOO_M = sorted(n for n, v in wasm.OPS.items() if v[2] == 'm')
_ZOO_PLAIN = sorted(n for n, v in wasm.OPS.items() if v[2] == '' and n not in ('unreachable', 'nop', 'else', 'end', 'return', 'drop', 'select', 'atomic.fence'))


class Profile:
    def __init__(self, **kw):
        self.ops = set(wasm.NUMERIC)  # allowed numeric ops
        self.types = [I32, I64, F32, F64]
        self.allow_trap = True
        self.nan_canon = True
        self.w_control = 1.0
        self.w_mem = 1.0
        self.w_call = 1.0
        self.w_trace = 0.5
        self.max_depth = 5
        self.max_stmts = 4
        self.brtable_max = 12
        self.surplus = True
        self.unreachable = True
        self.max_locals = 8
        self.max_size = 400
        self.__dict__.update(kw)


class ModCtx:
    """Module under construction plus what generated code may reference."""

    def __init__(self, rnd, profile, memory=True, n_globals=4, imports=True):
        self.rnd = rnd
        self.p = profile
        m = self.mod = Module()
        self.trace = {}
        if imports:
            self.trace[I32] = m.import_func('env', 'trace_i32', [I32], [])
            self.trace[I64] = m.import_func('env', 'trace_i64', [I64], [])
        self.has_mem = memory
        if memory:
            m.mems.append((1, 2, False))
            m.exports.append(('mem', 'memory', 0))
            # a passive segment, so that memory.init / data.drop exist as (dead) instructions in generated code
            m.datas.append(dict(mode='passive', bytes=b'passive-segment-of-generated-programs'))
        self.globals = []  # (idx, type) mutable
        m.globals.append((I32, True, [('i32.const', 0)]))
        self.budget = 0
        m.globals.append((I64, True, [('i64.const', 0)]))
        self.scratch = 1
        for i in range(n_globals):
            t = rnd.choice(profile.types)
            bits = self.rand_const(t)
            if t == F32 and wasm.is_nan32(bits) or t == F64 and wasm.is_nan64(bits):
                bits = 0
            m.globals.append((t, True, [const_instr(t, bits)]))
            self.globals.append((len(m.globals) - 1, t))
        self.funcs = []  # (funcidx, params, results) callable inner functions
        self.table_slots = {}  # sig -> [slot]
        self.export_wrappers = []

    def rand_const(self, t):
        r = self.rnd
        if t == I32:
            return r.choice(B32) if r.random() < 0.6 else r.getrandbits(32)
        if t == I64:
            return r.choice(B64) if r.random() < 0.6 else r.getrandbits(64)
        if t == F32:
            return r.choice(F32_SPECIAL) if r.random() < 0.6 else r.getrandbits(32)
        return r.choice(F64_SPECIAL) if r.random() < 0.6 else r.getrandbits(64)

    # -- finishing touches
    def add_inner(self, params, result, fg_kwargs=None):
        """Generate one inner function with the given signature; returns funcidx."""
        fg = FuncGen(self, params, result, **(fg_kwargs or {}))
        body = fg.generate()
        idx = self.mod.add_func(params, [result] if result else [], fg.local_groups(), body)
        self.funcs.append((idx, tuple(params), result))
        return idx

    def add_wrapper(self, inner_idx, name, budget=150):
        """Exported wrapper with integer-only signature around inner function."""
        ps, rs = self.mod.func_type(inner_idx)
        wp = [I32 if p in (I32, F32) else I64 for p in ps]
        body = [('i32.const', budget), ('global.set', self.budget)]
        for i, p in enumerate(ps):
            body.append(('local.get', i))
            if p == F32:
                body.append(('f32.reinterpret_i32',))
            elif p == F64:
                body.append(('f64.reinterpret_i64',))
        body.append(('call', inner_idx))
        wr = []
        if rs:
            r = rs[0]
            if r == F32:
                body.append(('i32.reinterpret_f32',))
                wr = [I32]
            elif r == F64:
                body.append(('i64.reinterpret_f64',))
                wr = [I64]
            else:
                wr = [r]
        idx = self.mod.add_func(wp, wr, [], body, export=name)
        self.export_wrappers.append((name, wp, wr, inner_idx))
        return idx

    def add_state_dump(self, name='dump'):
        """Exported function that pushes every mutable global through the trace imports."""
        body = []
        for gi, t in [(self.scratch, I64)] + self.globals:
            body.append(('global.get', gi))
            if t == F32:
                body.append(('i32.reinterpret_f32',))
                t = I32
            elif t == F64:
                body.append(('i64.reinterpret_f64',))
                t = I64
            body.append(('call', self.trace[t]))
        return self.mod.add_func([], [], [], body, export=name)

    def add_scratch_getter(self, name='scratch'):
        return self.mod.add_func([], [I64], [], [('global.get', self.scratch)], export=name)


class FuncGen:
    def __init__(self, ctx, params, result, n_locals=None, depth=None, callees=None):
        self.c = ctx
        self.r = ctx.rnd
        self.p = ctx.p
        self.params = list(params)
        self.result = result
        r = self.r
        nl = r.randint(0, self.p.max_locals) if n_locals is None else n_locals
        self.decl = [r.choice(self.p.types) for _ in range(nl)]
        # scratch locals (one per type) + fuel
        self.tmp = {}
        for t in (I32, I64, F32, F64):
            self.decl.append(t)
            self.tmp[t] = len(self.params) + len(self.decl) - 1
        self.decl.append(I32)
        self.fuel = len(self.params) + len(self.decl) - 1
        self.locals = self.params + self.decl
        self.user_locals = [i for i in range(len(self.params) + nl)]
        self.labels = []  # (kind, result)
        self.depth = self.p.max_depth if depth is None else depth
        self.callees = list(ctx.funcs) if callees is None else callees
        self.size = 0
        self.max_size = self.p.max_size

    def local_groups(self):
        groups = []
        for t in self.decl:
            if groups and groups[-1][1] == t and self.r.random() < 0.7:
                groups[-1] = (groups[-1][0] + 1, t)
            else:
                groups.append((1, t))
        return groups

    def generate(self):
        body = [('i32.const', self.r.randint(3, 24)), ('local.set', self.fuel)]
        body += self.stmts(self.depth)
        if self.r.random() < 0.2:
            # the function ends in dead code: surplus operands of any type are still on the stack at an explicit `return`
            # (they are discarded), and the function's `end` is reached with a polymorphic stack
            for _ in range(self.r.randint(1, 3)):
                body += self.leaf(self.r.choice(self.p.types))
            if self.result:
                body += self.expr(self.result, self.depth)
            body += [('return',)]
            if self.r.random() < 0.3:
                body += self.zoo_unit()
            return body
        if self.result:
            body += self.expr(self.result, self.depth)
        return body

    # ------------------------------------------------------------ leaves
    def locals_of(self, t):
        return [i for i in self.user_locals if self.locals[i] == t]

    def leaf(self, t):
        r = self.r
        x = r.random()
        ls = self.locals_of(t)
        if ls and x < 0.45:
            return [('local.get', r.choice(ls))]
        gs = [g for g, gt in self.c.globals if gt == t]
        if gs and x < 0.6:
            return [('global.get', r.choice(gs))]
        return [const_instr(t, self.c.rand_const(t))]

    def canon(self, t):
        """Instructions replacing a NaN on top of the stack by the canonical NaN."""
        tmp = self.tmp[t]
        c = CANON32 if t == F32 else CANON64
        return [('local.set', tmp), const_instr(t, c), ('local.get', tmp), ('local.get', tmp), ('local.get', tmp),
                ('%s.ne' % t,), ('select',)]

    def addr(self, d):
        """i32 address expression within [0, MEM_MASK]."""
        return self.expr(I32, d - 1) + [('i32.const', MEM_MASK), ('i32.and',)]

    # ------------------------------------------------------------ expressions
    def expr(self, t, d):
        self.size += 1
        r = self.r
        if d <= 0 or self.size > self.max_size:
            return self.leaf(t)
        p = self.p
        opts = [('leaf', 1.5), ('op', 6.0), ('select', 0.7), ('tee', 0.7)]
        if self.c.has_mem:
            opts.append(('load', 1.2 * p.w_mem))
            if t == I32:
                opts.append(('memsize', 0.1 * p.w_mem))
        opts += [('block', 0.8 * p.w_control), ('if', 0.9 * p.w_control), ('loopval', 0.3 * p.w_control),
                 ('brtable_val', 0.4 * p.w_control), ('condbr', 0.6 * p.w_control)]
        if any(res == t for _, _, res in self.callees):
            opts.append(('call', 1.0 * p.w_call))
        if self.c.table_slots and any(sig[1] == t for sig in self.c.table_slots):
            opts.append(('calli', 0.6 * p.w_call))
        k = self.pick(opts)
        if k == 'leaf':
            return self.leaf(t)
        if k == 'op':
            cands = [n for n in BY_RESULT[t] if n in p.ops and all(x in p.types for x in OPS[n][3])]
            if not cands:
                return self.leaf(t)
            n = r.choice(cands)
            params = OPS[n][3]
            out = []
            if n in DIVREM and not p.allow_trap:
                out += self.expr(params[0], d - 1)
                # divisor forced into [1, 0x7fff]: never 0, never -1
                out += self.expr(params[1], d - 1)
                out += [const_instr(t, 0x7ffe), ('%s.and' % t,), const_instr(t, 1), ('%s.or' % t,)]
            else:
                for pt in params:
                    out += self.expr(pt, d - 1)
            if n in TRAPPING_TRUNC:
                if not p.allow_trap:
                    # replace by the saturating form (never traps)
                    n = n.replace('.trunc_', '.trunc_sat_')
                else:
                    ft = params[0]
                    tmp = self.tmp[ft]
                    out += [('local.tee', tmp), ('local.get', tmp)]
                    if ft == F32:
                        out += [('i32.reinterpret_f32',), ('i64.extend_i32_u',)]
                    else:
                        out += [('i64.reinterpret_f64',)]
                    out += [('global.set', self.c.scratch)]
            out.append((n,))
            if p.nan_canon and n in NAN_NONDET:
                out += self.canon(t)
            return out
        if k == 'select':
            return self.expr(t, d - 1) + self.expr(t, d - 1) + self.expr(I32, d - 1) + [('select',)]
        if k == 'tee':
            ls = self.locals_of(t)
            if not ls:
                return self.leaf(t)
            return self.expr(t, d - 1) + [('local.tee', r.choice(ls))]
        if k == 'load':
            cands = [n for n, _, lt, _ in wasm.LOADS if lt == t]
            n = r.choice(cands)
            al = r.randint(0, wasm.natural_align(n))
            return self.addr(d) + [(n, al, r.choice([0, 1, 2, 3, 4, 7, 8, 0x100, 0xfff, r.randint(0, MEM_MAXOFF)]))]
        if k == 'memsize':
            return [('memory.size',)]
        if k == 'block':
            self.labels.append(('block', t))
            body = self.stmts(d - 1)
            if p.surplus and r.random() < 0.25:
                # the block never falls through: its only exit is a value-carrying branch taken with other operands (of other types)
                # beneath the carried value, so the label's result slot is written by the branch alone
                others = [x for x in p.types if x != t] or p.types
                for _ in range(r.randint(1, 3)):
                    body += self.leaf(r.choice(others))
                body += self.expr(t, max(0, d - 1)) + [('br', 0)]
                if r.random() < 0.3:
                    body += self.dead(t, d - 2)
                self.labels.pop()
                return [('block', t)] + body + [('end',)]
            if r.random() < 0.5:
                body += self.expr(t, d - 1) + self.expr(I32, d - 1) + [('br_if', 0)] + [('drop',)]
                body += self.stmts(d - 2)
            body += self.expr(t, d - 1)
            self.labels.pop()
            return [('block', t)] + body + [('end',)]
        if k == 'if':
            cond = self.expr(I32, d - 1)
            self.labels.append(('if', t))
            a = self.stmts(d - 2) + self.expr(t, d - 1)
            b = self.stmts(d - 2) + self.expr(t, d - 1)
            self.labels.pop()
            return cond + [('if', t)] + a + [('else',)] + b + [('end',)]
        if k == 'loopval':
            self.labels.append(('loopval', t))  # never a branch target: no fuel check on its back edge
            body = self.stmts(d - 2) + self.expr(t, d - 1)
            self.labels.pop()
            return [('loop', t)] + body + [('end',)]
        if k == 'brtable_val':
            n = r.randint(1, 3)
            for _ in range(n):
                self.labels.append(('block', t))
            inner = self.expr(t, d - 1) + self.expr(I32, d - 1)
            size = r.randint(0, p.brtable_max)
            tbl = [r.randint(0, n - 1) for _ in range(size)]
            inner += [('br_table', tbl, r.randint(0, n - 1))]
            out = []
            # the target blocks are opened at DIFFERENT operand-stack heights: an operand may be pending between two openings (it is
            # combined with, or dropped beneath, that block's result after its end), so each target's result lives in its own slot
            pending = [False] + [r.random() < 0.5 for _ in range(n - 1)]
            for i in range(n):
                if pending[i]:
                    out += self.leaf(t)
                out.append(('block', t))
            out += inner
            for i in range(n):
                self.labels.pop()
                out.append(('end',))
                if pending[n - 1 - i]:
                    if t in (I32, I64):
                        out.append(('%s.xor' % t,))
                    else:
                        out += [('local.set', self.tmp[t]), ('drop',), ('local.get', self.tmp[t])]
                if i < n - 1:
                    # modify the carried value between the ends so the landing label is observable
                    out += self.mutate(t, i)
            return out
        if k == 'condbr':
            # conditional non-local exit carrying a value, with surplus operands below it
            targets = [(i, lab) for i, lab in enumerate(reversed(self.labels)) if lab[0] not in ('loop', 'loopval') and lab[1] is not None]
            choice = r.random()
            cond = self.expr(I32, d - 1)
            self.labels.append(('if', t))
            then = []
            if p.surplus:
                for _ in range(r.randint(0, 3)):
                    then += self.leaf(r.choice(p.types))
            if targets and choice < 0.6:
                i, lab = r.choice(targets)
                then += self.expr(lab[1], d - 2) + [('br', i + 1)]
            elif choice < 0.93 or not p.unreachable:
                if self.result:
                    then += self.expr(self.result, d - 2)
                then += [('return',)]
            else:
                then += [('unreachable',)]
            if r.random() < 0.5:
                then += self.dead(t, d - 2)
            els = self.expr(t, d - 1)
            self.labels.pop()
            return cond + [('if', t)] + then + [('else',)] + els + [('end',)]
        if k == 'call':
            cands = [(fi, ps) for fi, ps, res in self.callees if res == t]
            fi, ps = r.choice(cands)
            self.labels.append(('if', t))
            args = []
            for pt in ps:
                args += self.expr(pt, d - 2)
            self.labels.pop()
            return self.guarded_call(t, args + [('call', fi)])
        if k == 'calli':
            sigs = [s for s in self.c.table_slots if s[1] == t]
            sig = r.choice(sigs)
            slots = self.c.table_slots[sig]
            self.labels.append(('if', t))
            args = []
            for pt in sig[0]:
                args += self.expr(pt, d - 2)
            a, b = r.choice(slots), r.choice(slots)
            idx = [('i32.const', a), ('i32.const', b)] + self.expr(I32, d - 2) + [('select',)]
            self.labels.pop()
            ti = self.c.mod.add_type(sig[0], [sig[1]] if sig[1] else [])
            return self.guarded_call(t, args + idx + [('call_indirect', ti, 0)])
        raise AssertionError(k)

    def guarded_call(self, t, call):
        dec = [('global.get', self.c.budget), ('i32.const', 1), ('i32.sub',), ('global.set', self.c.budget)]
        alt = [const_instr(t, self.c.rand_const(t))] if t else []
        return ([('global.get', self.c.budget), ('i32.const', 0), ('i32.gt_s',), ('if', t)] + dec + call + [('else',)] + alt + [('end',)])

    def mutate(self, t, salt):
        """Deterministic, NaN-safe modification of the value on top of the stack."""
        if t == I32:
            return [('i32.const', 0x9e3779b1 + salt), ('i32.xor',), ('i32.const', 5), ('i32.rotl',)]
        if t == I64:
            return [('i64.const', 0x9e3779b97f4a7c15 + salt), ('i64.xor',), ('i64.const', 11), ('i64.rotl',)]
        return [('%s.neg' % t,)]

    def zoo_unit(self):
        """One arbitrary instruction of the WHOLE supported opcode table (incl. every 0xFC / 0xFE prefixed one) for dead code: its
        operands come from the polymorphic stack, its results are dropped. Immediates use byte values that would be structural
        opcodes (end, else, block, loop, if, br, ...) if a decoder skipped them incorrectly."""
        r = self.r
        if r.random() < 0.3:
            # instructions with other kinds of immediates: indices (function, type, local, global, data segment, label) and the reserved
            # bytes of the bulk-memory instructions. Operands come from the polymorphic stack; concrete results are dropped.
            kinds = ['local', 'global', 'br']
            if self.callees:
                kinds.append('call')
            if self.c.mod.tables and self.c.mod.types:
                kinds += ['call_indirect', 'call_indirect']
            if self.c.has_mem and self.c.mod.datas:
                kinds += ['memory.init', 'data.drop', 'memory.copy', 'memory.fill']
            k = r.choice(kinds)
            if k == 'call':
                idx, ps, res = r.choice(self.callees)
                return [('call', idx)] + ([('drop',)] if res else [])
            if k == 'call_indirect':
                ti = r.randrange(len(self.c.mod.types))
                return [('call_indirect', ti, 0)] + [('drop',)] * len(self.c.mod.types[ti][1])
            if k == 'memory.init':
                return [('memory.init', 0)]
            if k == 'data.drop':
                return [('nop',)]          # (dropping the segment for real would change later live memory.init; keep the opcode table honest elsewhere)
            if k in ('memory.copy', 'memory.fill'):
                return [(k,)]
            if k == 'local':
                li = r.randrange(len(self.locals))
                return r.choice([[('local.get', li), ('drop',)], [('local.set', li)], [('local.tee', li), ('drop',)]])
            if k == 'global':
                gs = self.c.globals
                if gs:
                    gi, gt = r.choice(gs)
                    return r.choice([[('global.get', gi), ('drop',)], [('global.set', gi)]])
                return [('nop',)]
            depth = r.randrange(len(self.labels) + 1)
            return [('br', depth)] if r.random() < 0.6 else [('br_table', [depth] * r.randint(0, 4), depth)]   # (all targets of a br_table must have one arity, in dead code too)
        name = r.choice(_ZOO_M if (self.c.has_mem and r.random() < 0.6) else _ZOO_PLAIN)
        prefix, code, imm, params, results = wasm.OPS[name]
        if imm == 'm':
            nat = _natural_align(name)
            align = nat if '.atomic.' in name else r.randint(0, nat)
            off = r.choice([0, 1, 2, 3, 4, 5, 0x0b, 0x0b, 0x0c, 0x0d, 0x0e, 0x0f, 0x10, 0x11, 0x40, 0x7f, 0x80, 0x0b0b, 0x3fff, 0xfe, 0xfc])
            ins = (name, align, off)
        else:
            ins = (name,)
        return [ins] + [('drop',)] * len(results)

    def dead(self, t, d):
        """Code that is unreachable but must still be decoded correctly (immediates, nested blocks)."""
        r = self.r
        out = []
        saved = self.size
        for _ in range(r.randint(1, 3)):
            x = r.random()
            if x < 0.25:
                for _ in range(r.randint(1, 4)):
                    out += self.zoo_unit()
            elif x < 0.5:
                out += self.stmts(max(1, d))
            elif x < 0.7:
                tt = r.choice(self.p.types)
                out += self.expr(tt, max(1, d)) + [('drop',)]
            else:
                self.labels.append(('block', None))
                out += [('block', None)] + self.stmts(max(0, d - 1)) + [('end',)]
                self.labels.pop()
        if r.random() < 0.5:
            out += self.expr(t, max(0, d - 1)) if t else []
        self.size = saved + 5
        return out

    def pick(self, opts):
        tot = sum(w for _, w in opts)
        x = self.r.random() * tot
        for k, w in opts:
            x -= w
            if x <= 0:
                return k
        return opts[-1][0]

    # ------------------------------------------------------------ statements
    def stmts(self, d):
        if d <= 0:
            n = self.r.randint(0, 1)
        else:
            n = self.r.randint(0, self.p.max_stmts)
        out = []
        for _ in range(n):
            if self.size > self.max_size:
                break
            out += self.stmt(d)
        return out

    def stmt(self, d):
        self.size += 1
        r = self.r
        p = self.p
        opts = [('set', 3.0), ('gset', 1.0), ('drop', 0.5), ('nop', 0.2)]
        if self.c.trace:
            opts.append(('trace', 2.0 * p.w_trace))
        if self.c.has_mem:
            opts.append(('store', 1.5 * p.w_mem))
        if d > 0:
            opts += [('if', 1.5 * p.w_control), ('block', 1.0 * p.w_control), ('loop', 0.8 * p.w_control),
                     ('switch', 0.7 * p.w_control), ('brout', 0.7 * p.w_control)]
            if any(res is None for _, _, res in self.callees):
                opts.append(('callv', 0.6 * p.w_call))
        k = self.pick(opts)
        if k == 'set':
            if not self.user_locals:
                return [('nop',)]
            i = r.choice(self.user_locals)
            return self.expr(self.locals[i], d) + [('local.set', i)]
        if k == 'gset':
            if not self.c.globals:
                return [('nop',)]
            g, t = r.choice(self.c.globals)
            return self.expr(t, d) + [('global.set', g)]
        if k == 'drop':
            return self.expr(r.choice(p.types), d) + [('drop',)]
        if k == 'nop':
            return [('nop',)]
        if k == 'trace':
            t = r.choice([I32, I64])
            return self.expr(t, d) + [('call', self.c.trace[t])]
        if k == 'store':
            cands = [(n, st) for n, _, st, _ in wasm.STORES if st in p.types]
            n, st = r.choice(cands)
            al = r.randint(0, wasm.natural_align(n))
            return self.addr(d) + self.expr(st, d - 1) + [(n, al, r.choice([0, 1, 3, 4, 8, 0x10, 0xff, r.randint(0, MEM_MAXOFF)]))]
        if k == 'if':
            cond = self.expr(I32, d - 1)
            self.labels.append(('if', None))
            a = self.stmts(d - 1)
            b = self.stmts(d - 1) if r.random() < 0.6 else None
            self.labels.pop()
            return cond + [('if', None)] + a + ([('else',)] + b if b is not None else []) + [('end',)]
        if k == 'block':
            self.labels.append(('block', None))
            body = self.stmts(d - 1) + self.expr(I32, d - 1) + [('br_if', 0)] + self.stmts(d - 1)
            self.labels.pop()
            return [('block', None)] + body + [('end',)]
        if k == 'loop':
            self.labels.append(('block', None))
            self.labels.append(('loop', None))
            body = [('local.get', self.fuel), ('i32.eqz',), ('br_if', 1),
                    ('local.get', self.fuel), ('i32.const', 1), ('i32.sub',), ('local.set', self.fuel)]
            body += self.stmts(d - 1)
            body += self.expr(I32, d - 1) + [('br_if', 0)]
            self.labels.pop()
            self.labels.pop()
            return [('block', None), ('loop', None)] + body + [('end',), ('end',)]
        if k == 'switch':
            n = r.randint(1, 5)
            out = [('block', None)]
            self.labels.append(('block', None))  # exit
            for _ in range(n):
                out.append(('block', None))
                self.labels.append(('block', None))
            size = r.choice([0, 1, 2, 3, n, n + 1, p.brtable_max, r.randint(0, p.brtable_max)])
            tbl = [r.randint(0, n) for _ in range(size)]
            idx = self.expr(I32, d - 1)
            if r.random() < 0.5:
                idx += [('i32.const', max(1, size + 2)), ('i32.rem_u',)]
            out += idx + [('br_table', tbl, r.randint(0, n))]
            for i in range(n):
                out.append(('end',))
                self.labels.pop()
                out += self.stmts(d - 1)
                if r.random() < 0.6:
                    out.append(('br', n - 1 - i))
                    if r.random() < 0.3:
                        out += self.dead(None, d - 2)
            out.append(('end',))
            self.labels.pop()
            return out
        if k == 'brout':
            # conditional branch out of an enclosing label (any kind), possibly carrying a value
            if not self.labels:
                return [('nop',)]
            i = r.randrange(len(self.labels))
            lab = self.labels[len(self.labels) - 1 - i]
            if lab[0] == 'loopval':
                return [('nop',)]
            if lab[0] == 'loop' or lab[1] is None:
                return self.expr(I32, d - 1) + [('br_if', i)]
            return self.expr(lab[1], d - 1) + self.expr(I32, d - 1) + [('br_if', i), ('drop',)]
        if k == 'callv':
            cands = [(fi, ps) for fi, ps, res in self.callees if res is None]
            fi, ps = r.choice(cands)
            self.labels.append(('if', None))
            args = []
            for pt in ps:
                args += self.expr(pt, d - 2)
            self.labels.pop()
            return self.guarded_call(None, args + [('call', fi)])
        raise AssertionError(k)


def build_program_module(rnd, profile, n_funcs=12, memory=True, table=True, n_globals=4):
    """A module of n_funcs inner functions (+ exported int-only wrappers), a dump and scratch getter."""
    c = ModCtx(rnd, profile, memory=memory, n_globals=n_globals)
    types = profile.types
    if table:
        c.mod.tables.append((16, 16))
    slot = 0
    elems = []
    for k in range(n_funcs):
        ps = [rnd.choice(types) for _ in range(rnd.randint(0, 4))]
        res = rnd.choice(types + [None]) if rnd.random() < 0.85 else None
        idx = c.add_inner(ps, res)
        if table and slot < 16 and rnd.random() < 0.5:
            c.table_slots.setdefault((tuple(ps), res), []).append(slot)
            elems.append(idx)
            slot += 1
    if elems:
        c.mod.elems.append((0, [('i32.const', 0)], elems))
    for k, (idx, ps, res) in enumerate(list(c.funcs)):
        c.add_wrapper(idx, 'w%d' % k)
    c.add_state_dump()
    c.add_scratch_getter()
    return c
