"""Spec-suite corpus: modules + call scripts derived from the wast2json command files (corpus/spec)."""
import os, json, glob
from . import env, wasm, e2e

SAFE_TRAPS = ('integer divide by zero', 'integer overflow', 'unreachable', 'invalid conversion to integer')


def load():
    """Returns list of dict(file, bytes, commands=[(kind, field, args_bits, expected, text)])."""
    out = []
    d = os.path.join(env.VERIF, 'corpus', 'spec')
    for jf in sorted(glob.glob(os.path.join(d, '*.json'))):
        cmds = json.load(open(jf))['commands']
        cur = None
        for c in cmds:
            t = c['type']
            if t == 'module':
                cur = dict(file=c['filename'], bytes=open(os.path.join(d, c['filename']), 'rb').read(), commands=[], named='name' in c)
                out.append(cur)
            elif t in ('assert_return', 'assert_trap', 'action') and cur is not None:
                a = c.get('action', {})
                if a.get('type') != 'invoke' or 'module' in a:
                    continue
                if t == 'assert_trap' and not any(s in c.get('text', '') for s in SAFE_TRAPS):
                    continue
                try:
                    args = [(x['type'], int(x['value'])) for x in a.get('args', [])]
                except (ValueError, KeyError):
                    continue
                cur['commands'].append((t, a['field'], args, c.get('expected'), c.get('text')))
            elif t == 'register':
                cur = None if cur is None else cur
    return out


def script_for(entry, mod, plan, inst=0, limit=400):
    """Build a driver script for a corpus module from its commands. Returns (script, ncalls)."""
    lines = ['I %d' % inst]
    n = 0
    entry['_meta'] = meta = {}
    for kind, field, args, expected, text in entry['commands'][:limit]:
        if field not in plan.export_index:
            continue
        ex = plan.exports[plan.export_index[field]]
        if len(ex['params']) != len(args) or any(a[0] != p for a, p in zip(args, ex['params'])):
            continue
        lines.append(('c %d %d %s' % (inst, plan.fk(field), ' '.join(hex(v) for _, v in args))).rstrip())
        n += 1
        meta[len(lines)] = (kind, expected, text)
    for i, r in enumerate(plan.memrefs):
        lines.append('m %d %d' % (inst, i))
    lines.append('t')
    return '\n'.join(lines) + '\n', n


def runnable(entry):
    """Decode; returns (module, plan) or None when the module cannot be driven by the generic driver."""
    try:
        m = wasm.decode(entry['bytes'])
    except Exception:
        return None
    if wasm.uses_unsupported(m):
        return None
    names = set()
    for n, k, i in m.exports:
        try:
            s = n.decode('ascii')
        except UnicodeDecodeError:
            return None
        if not s or any(ord(ch) < 32 or ch in '"\\' for ch in s):
            return None
        esc = e2e.escape(s)
        if esc in names:
            return None
        names.add(esc)
    for mm, n, k, dsc in m.imports:
        for x in (mm, n):
            try:
                s = x.decode('ascii')
            except UnicodeDecodeError:
                return None
            if any(ord(ch) < 32 or ch in '"\\' for ch in s):
                return None
    # imported tables must be large enough for element segments is not guaranteed by the generic driver: skip odd cases
    plan = e2e.Plan(m)
    return m, plan


def nan_tolerant_equal(a, b, meta):
    """Line equality, except that float results whose spec expectation is nan:canonical / nan:arithmetic compare by class."""
    if a == b:
        return True
    pa, pb = a.split(' -> '), b.split(' -> ')
    if len(pa) != 2 or len(pb) != 2 or pa[0] != pb[0]:
        return False
    try:
        step = int(a.split(' ')[0])
    except ValueError:
        return False
    kind, expected, text = meta.get(step, (None, None, None))
    if not expected or not str(expected[0].get('value', '')).startswith('nan:'):
        return False
    ra, rb = pa[1], pb[1]
    if ':' not in ra or ':' not in rb:
        return False
    ta, va = ra.split(':')
    tb, vb = rb.split(':')
    if ta != tb or ta not in ('f32', 'f64'):
        return False
    isn = wasm.is_nan32 if ta == 'f32' else wasm.is_nan64
    return isn(int(va, 16)) and isn(int(vb, 16))


def check_expected(line, meta):
    """Compare one output line with the spec-authored expectation. Returns None if fine / not applicable, else a message."""
    try:
        step = int(line.split(' ')[0])
    except ValueError:
        return None
    if step not in meta or ' -> ' not in line:
        return None
    kind, expected, text = meta[step]
    res = line.split(' -> ')[1]
    if kind == 'assert_trap':
        want = {'integer divide by zero': 'trap:divzero', 'integer overflow': 'trap:overflow', 'unreachable': 'trap:unreachable',
                'invalid conversion to integer': 'trap:invalidconv'}
        for k, v in want.items():
            if k in (text or ''):
                return None if res == v else 'expected %s, got %s' % (v, res)
        return None
    if kind != 'assert_return' or expected is None:
        return None
    if len(expected) == 0:
        return None if res == 'void' else 'expected no result, got %s' % res
    e = expected[0]
    if ':' not in res or res.startswith('trap'):
        return 'expected a value, got %s' % res
    t, v = res.split(':')
    v = int(v, 16)
    if t != e['type']:
        return 'expected type %s, got %s' % (e['type'], t)
    ev = str(e.get('value'))
    if ev.startswith('nan:'):
        # C02/C11 only demand "a NaN" where the specification yields one (payload and quietness are not judged)
        ok = wasm.is_nan32(v) if t == 'f32' else wasm.is_nan64(v)
        return None if ok else 'expected %s, got %#x' % (ev, v)
    try:
        want = int(ev)
    except ValueError:
        return None
    return None if want == v else 'expected %#x, got %#x' % (want, v)
