"""Parse sanitizer reports into stable keys: kind + innermost frame inside the repository (no line numbers)."""
import re

ASAN_HEAD = re.compile(r'==\d+==ERROR: (AddressSanitizer|LeakSanitizer): ([^\s:]+)')
ASAN_SEGV = re.compile(r'==\d+==ERROR: AddressSanitizer: (SEGV|stack-overflow|BUS|FPE|ILL|ABRT)')
FRAME = re.compile(r'^\s*#(\d+) 0x[0-9a-f]+ in (\S+) (\S+?)(?::\d+)?(?::\d+)?$')
FRAME2 = re.compile(r'^\s*#(\d+) 0x[0-9a-f]+ in (\S+)')
UBSAN = re.compile(r'(\S+?):(\d+):(?:(\d+):)? runtime error: (.*)$')
MSAN_HEAD = re.compile(r'==\d+==WARNING: MemorySanitizer: ([^\s:]+)')
TSAN_FRAME = re.compile(r'^\s*#(\d+) (\S+) (\S+?)(?::\d+)?(?::\d+)? \(')
TSAN_HEAD = re.compile(r'WARNING: ThreadSanitizer: ([^\(]+?) \(pid')

REPO_MARKERS = ('/w2c2/', '/wasi/', '/futex/')
INTERCEPTORS = ('__interceptor_', '__asan_', '__sanitizer', '__ubsan', '__tsan', 'strcpy', 'memcpy', 'memmove', 'strlen', 'strcmp',
                'printf_common', 'vsprintf', 'sprintf', 'vfprintf', 'fprintf', 'free', 'malloc', 'calloc', 'realloc', 'strncpy',
                'strdup', 'strndup', 'fwrite', 'fread', 'fputs', 'memset', 'strchr', 'strrchr', 'memcmp', 'qsort', 'bsearch',
                'msort_with_tmp', '__qsort_r', 'qsort_r', 'operator')


def frames(lines, start):
    out = []
    for l in lines[start:start + 40]:
        m = FRAME.match(l)
        if m:
            out.append((m.group(2), m.group(3)))
            continue
        m = FRAME2.match(l)
        if m:
            out.append((m.group(2), ''))
            continue
        if out and not l.strip():
            break
    return out


def innermost_repo_frame(fr, repo_hint=None):
    for fn, path in fr:
        if any(fn.startswith(p) for p in INTERCEPTORS):
            continue
        if path and (any(mk in path for mk in REPO_MARKERS) or (repo_hint and repo_hint in path)):
            return fn
    for fn, path in fr:
        if not any(fn.startswith(p) for p in INTERCEPTORS) and fn not in ('main', '__libc_start_main', '_start', '__libc_start_call_main'):
            return fn
    return fr[0][0] if fr else '?'


def ubsan_class(msg):
    msg = re.sub(r'0x[0-9a-f]+', 'ADDR', msg)
    msg = re.sub(r'-?\d+', 'N', msg)
    msg = re.sub(r"'[^']*'", 'T', msg)
    return msg.strip().replace(' ', '-')[:70]


def parse(text, repo_hint=None):
    """Return list of (key_suffix, headline) for each sanitizer report in text."""
    out = []
    lines = text.splitlines()
    for i, l in enumerate(lines):
        m = ASAN_HEAD.search(l)
        if m:
            kind = m.group(2)
            fr = frames(lines, i + 1)
            out.append(('asan:%s:%s' % (kind, innermost_repo_frame(fr, repo_hint)), l.strip()[:300]))
            continue
        m = MSAN_HEAD.search(l)
        if m:
            fr = frames(lines, i + 1)
            out.append(('msan:%s:%s' % (m.group(1), innermost_repo_frame(fr, repo_hint)), l.strip()[:300]))
            continue
        m = UBSAN.search(l.strip())
        if m:
            fr = frames(lines, i + 1)
            fn = innermost_repo_frame(fr, repo_hint) if fr else m.group(1).split('/')[-1]
            out.append(('ubsan:%s:%s' % (ubsan_class(m.group(4)), fn), l.strip()[:300]))
            continue
        m = TSAN_HEAD.search(l)
        if m:
            out.append(('tsan:' + m.group(1).strip().replace(' ', '-'), i))
    return out


def parse_tsan(text, repo_hint=None):
    """TSan reports: returns list of dict(kind, stacks=[[frames]], key)."""
    reports = []
    blocks = text.split('==================')
    for b in blocks:
        m = TSAN_HEAD.search(b)
        if not m:
            continue
        kind = m.group(1).strip().replace(' ', '-')
        stacks = []
        cur = None
        for l in b.splitlines():
            if re.match(r'^\s+(Write|Read|Previous|Atomic|Mutex|Location|Thread|As if)', l) or 'of size' in l:
                cur = []
                stacks.append(cur)
                continue
            fm = FRAME.match(l) or TSAN_FRAME.match(l) or FRAME2.match(l)
            if fm and cur is not None:
                cur.append((fm.group(2), fm.group(3) if fm.lastindex and fm.lastindex >= 3 else ''))
        acc = [s for s in stacks[:2] if s]
        inner = []
        in_repo = False
        for s in acc:
            fn = innermost_repo_frame(s, repo_hint)
            inner.append(fn)
            for f, pth in s:
                if pth and (any(mk in pth for mk in REPO_MARKERS) or (repo_hint and repo_hint in pth)):
                    in_repo = True
        key = 'tsan:%s:%s' % (kind, '~'.join(sorted(inner)))
        reports.append(dict(kind=kind, key=key, in_repo=in_repo, text=b.strip()[:3000]))
    return reports
