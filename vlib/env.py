"""Environment: repo location, scratch directory, process helpers, translator builds."""
import os, sys, subprocess, tempfile, shutil, atexit, time, hashlib, signal, random
from concurrent.futures import ThreadPoolExecutor

VERIF = os.path.dirname(os.path.dirname(os.path.abspath(__file__)))
REPO = os.environ.get('W2C2_REPO', '/repo')
JOBS = int(os.environ.get('VERIF_JOBS', os.cpu_count() or 4))
SEED = int(os.environ.get('VERIF_SEED', '1'))
GUARD = 'W2C2_VERIF'

W2C2_DEFS = ['-DHAS_PTHREAD=1', '-DHAS_UNISTD=1', '-DHAS_GETOPT=1', '-DHAS_LIBGEN=1', '-DHAS_STRDUP=1', '-DHAS_GLOB=1']
WASI_DEFS = ['-DHAS_UNISTD=1', '-DHAS_SYSUIO=1', '-DHAS_SYSTIME=1', '-DHAS_SYSRESOURCE=1', '-DHAS_STRNDUP=1',
             '-DHAS_FCNTL=1', '-DHAS_LSTAT=1', '-DHAS_GETENTROPY=1', '-DHAS_TIMESPEC=1', '-DHAS_NONPOSIXPATH=0',
             '-DWASM_THREADS_PTHREADS']

_work = None


def workdir():
    """Fresh scratch directory outside /repo and /verif, removed at exit."""
    global _work
    if _work is None:
        base = os.environ.get('VERIF_TMP', tempfile.gettempdir())
        _work = tempfile.mkdtemp(prefix='w2c2verif-', dir=base)
        atexit.register(cleanup)
        for s in (signal.SIGTERM, signal.SIGINT):
            signal.signal(s, lambda *_: sys.exit(2))
    return _work


def cleanup():
    global _work
    if _work and os.path.isdir(_work) and not os.environ.get('VERIF_KEEP'):
        shutil.rmtree(_work, ignore_errors=True)
    _work = None


def subdir(name):
    d = os.path.join(workdir(), name)
    os.makedirs(d, exist_ok=True)
    return d


class Result:
    def __init__(self, rc, out, err, timeout=False, wall=0.0):
        self.rc, self.out, self.err, self.timeout, self.wall = rc, out, err, timeout, wall

    @property
    def signal(self):
        return -self.rc if self.rc is not None and self.rc < 0 else 0


def run(cmd, cwd=None, env=None, timeout=120, stdin=None, text=True, limit_as=None):
    """Run a child with a wall-clock watchdog. Never raises on failure."""
    e = dict(os.environ)
    if env:
        e.update(env)
    t0 = time.time()
    pre = None
    if limit_as:
        import resource

        def pre():
            resource.setrlimit(resource.RLIMIT_AS, (limit_as, limit_as))
    try:
        p = subprocess.Popen(cmd, cwd=cwd, env=e, stdin=subprocess.PIPE if stdin is not None else subprocess.DEVNULL,
                             stdout=subprocess.PIPE, stderr=subprocess.PIPE, start_new_session=True, preexec_fn=pre)
    except OSError as ex:
        return Result(127, '', str(ex))
    try:
        o, er = p.communicate(stdin if stdin is None or isinstance(stdin, bytes) else stdin.encode(), timeout=timeout)
        to = False
    except subprocess.TimeoutExpired:
        try:
            os.killpg(p.pid, signal.SIGKILL)
        except OSError:
            pass
        o, er = p.communicate()
        to = True
    if text:
        o = o.decode('utf-8', 'replace')
        er = er.decode('utf-8', 'replace')
    return Result(p.returncode, o, er, to, time.time() - t0)


def pmap(fn, items, jobs=None):
    """Parallel map preserving order (threads; the work is in child processes)."""
    items = list(items)
    if not items:
        return []
    with ThreadPoolExecutor(max_workers=jobs or JOBS) as ex:
        return list(ex.map(fn, items))


class HarnessError(Exception):
    """Raised when the machinery itself failed (=> inconclusive, exit 2)."""


# ------------------------------------------------------------------ translator builds
def translator_sources():
    d = os.path.join(REPO, 'w2c2')
    return sorted(os.path.join(d, f) for f in os.listdir(d)
                  if f.endswith('.c') and not f.endswith('_test.c') and f != 'test.c')


BUILD_FLAGS = {
    'plain': ['-O2'],
    'asan': ['-O1', '-g', '-fno-omit-frame-pointer', '-fsanitize=address,undefined', '-fno-sanitize-recover=all'],
    'asan-recover': ['-O1', '-g', '-fno-omit-frame-pointer', '-fsanitize=address,undefined', '-fsanitize-recover=all'],
    'tsan': ['-O1', '-g', '-fsanitize=thread'],
    'msan': ['-O1', '-g', '-fno-omit-frame-pointer', '-fsanitize=memory', '-fsanitize-memory-track-origins'],   # clang only
}

_built = {}


def build_translator(kind='plain', guard=False, defs=None, cc='gcc', tag=None):
    """Compile the w2c2 translator from the working tree. Returns path of the binary."""
    key = tag or (kind + ('+g' if guard else '') + ('+' + '_'.join(defs) if defs else ''))
    if key in _built:
        return _built[key]
    d = subdir('build-' + key.replace('/', '_').replace('=', '').replace('-D', ''))
    flags = list(BUILD_FLAGS[kind.split('+')[0]]) + ['-std=gnu90', '-w']
    flags += (defs if defs is not None else W2C2_DEFS)
    if guard:
        flags.append('-D%s=1' % GUARD)
    srcs = translator_sources()
    if guard:
        srcs = srcs + [os.path.join(VERIF, 'harness', 'hooks_translator.c')]

    def comp(src):
        obj = os.path.join(d, os.path.basename(src)[:-2] + '.o')
        fl = [f for f in flags if not f.startswith('-std=')] if src.startswith(VERIF) else flags
        r = run([cc] + fl + ['-c', src, '-o', obj], timeout=300)
        return (src, obj, r)

    res = pmap(comp, srcs)
    for src, obj, r in res:
        if r.rc != 0:
            raise HarnessError('translator build %s failed on %s:\n%s' % (key, src, r.err[-3000:]))
    exe = os.path.join(d, 'w2c2')
    link = [f for f in flags if f.startswith('-fsanitize') or f == '-g']
    r = run([cc] + link + [o for _, o, _ in res] + ['-o', exe, '-lpthread', '-lm'], timeout=300)
    if r.rc != 0:
        raise HarnessError('translator link %s failed:\n%s' % (key, r.err[-3000:]))
    _built[key] = exe
    return exe


SAN_ENV = {
    'ASAN_OPTIONS': 'detect_leaks=0:abort_on_error=0:exitcode=99:allocator_may_return_null=1:detect_stack_use_after_return=0:malloc_fill_byte=165:max_malloc_fill_size=67108864',
    'UBSAN_OPTIONS': 'print_stacktrace=1:halt_on_error=1:exitcode=98',
    'TSAN_OPTIONS': 'halt_on_error=0:exitcode=97:second_deadlock_stack=1',
    'MSAN_OPTIONS': 'exit_code=98',
    # memory obtained from malloc has indeterminate contents: make that visible (glibc fills malloc'ed blocks with this byte, freed ones
    # with its complement; ASan does the same through malloc_fill_byte), so that code relying on fresh pages being zero is exposed
    'MALLOC_PERTURB_': '165',
}


def rng(*salt):
    """Private deterministic PRNG derived from VERIF_SEED and a salt."""
    h = hashlib.sha256(('%d/' % SEED + '/'.join(str(s) for s in salt)).encode()).digest()
    return random.Random(int.from_bytes(h[:8], 'little'))


def sha(b):
    return hashlib.sha256(b).hexdigest()


_COMMA = [False, None]


def comma_locale_env():
    """Environment (LOCPATH + LC_ALL/LANG) of a locale whose decimal point is ',' - built with localedef into the scratch directory.
    Returns None if it cannot be built or does not take effect. The translator's output must not depend on its locale environment."""
    if _COMMA[0]:
        return _COMMA[1]
    _COMMA[0] = True
    try:
        d = subdir('comma-locale')
        src = os.path.join(d, 'src')
        os.makedirs(src, exist_ok=True)
        os.makedirs(os.path.join(d, 'locale'), exist_ok=True)
        open(os.path.join(src, 'xx_XX'), 'w').write('comment_char %\nescape_char /\nLC_NUMERIC\ndecimal_point ","\nthousands_sep ""\ngrouping -1\nEND LC_NUMERIC\n')
        cm = '<code_set_name> ANSI_X3.4-1968\n<comment_char> %\n<escape_char> /\nCHARMAP\n' + ''.join('<U%04X>     /x%02x         C%d\n' % (i, i, i) for i in range(128)) + 'END CHARMAP\n'
        open(os.path.join(src, 'ASCII.cm'), 'w').write(cm)
        run(['localedef', '-c', '-i', os.path.join(src, 'xx_XX'), '-f', os.path.join(src, 'ASCII.cm'), os.path.join(d, 'locale', 'xx_XX')], timeout=60)
        probe = os.path.join(d, 'probe')
        open(probe + '.c', 'w').write('#include <locale.h>\n#include <stdio.h>\nint main(void) { if (!setlocale(LC_ALL, "")) return 1; printf("%.2g\\n", 1.5); return 0; }\n')
        if run(['gcc', '-w', probe + '.c', '-o', probe], timeout=60).rc != 0:
            return None
        e = {'LOCPATH': os.path.join(d, 'locale'), 'LC_ALL': 'xx_XX', 'LANG': 'xx_XX'}
        r = run([probe], env=dict(os.environ, **e), timeout=20)
        if r.rc == 0 and r.out.strip() == '1,5':
            _COMMA[1] = e
    except Exception:
        _COMMA[1] = None
    return _COMMA[1]
