"""WASI harness: trampoline module, driver build, guest-memory model and script builder."""
import os, re, zlib, errno as _errno
from . import env, e2e, wasm
from .wasm import *

# spec'd signatures (params) of the WASI functions; all return i32 except proc_exit
SIGS = {
    'args_get': [I32, I32], 'args_sizes_get': [I32, I32], 'environ_get': [I32, I32], 'environ_sizes_get': [I32, I32],
    'clock_res_get': [I32, I32], 'clock_time_get': [I32, I64, I32], 'fd_advise': [I32, I64, I64, I32], 'fd_allocate': [I32, I64, I64],
    'fd_close': [I32], 'fd_datasync': [I32], 'fd_fdstat_get': [I32, I32], 'fd_fdstat_set_flags': [I32, I32], 'fd_fdstat_set_rights': [I32, I64, I64],
    'fd_filestat_get': [I32, I32], 'fd_filestat_set_size': [I32, I64], 'fd_filestat_set_times': [I32, I64, I64, I32],
    'fd_pread': [I32, I32, I32, I64, I32], 'fd_prestat_get': [I32, I32], 'fd_prestat_dir_name': [I32, I32, I32],
    'fd_pwrite': [I32, I32, I32, I64, I32], 'fd_read': [I32, I32, I32, I32], 'fd_readdir': [I32, I32, I32, I64, I32], 'fd_renumber': [I32, I32],
    'fd_seek': [I32, I64, I32, I32], 'fd_sync': [I32], 'fd_tell': [I32, I32], 'fd_write': [I32, I32, I32, I32],
    'path_create_directory': [I32, I32, I32], 'path_filestat_get': [I32, I32, I32, I32, I32],
    'path_filestat_set_times': [I32, I32, I32, I32, I64, I64, I32], 'path_link': [I32, I32, I32, I32, I32, I32, I32],
    'path_open': [I32, I32, I32, I32, I32, I64, I64, I32, I32], 'path_readlink': [I32, I32, I32, I32, I32, I32],
    'path_remove_directory': [I32, I32, I32], 'path_rename': [I32, I32, I32, I32, I32, I32], 'path_symlink': [I32, I32, I32, I32, I32],
    'path_unlink_file': [I32, I32, I32], 'poll_oneoff': [I32, I32, I32, I32], 'proc_exit': [I32], 'random_get': [I32, I32],
    'sched_yield': [], 'sock_accept': [I32, I32, I32], 'sock_recv': [I32, I32, I32, I32, I32, I32], 'sock_send': [I32, I32, I32, I32, I32],
    'sock_shutdown': [I32, I32],
}

WASI_ERRNO = ['success', '2big', 'acces', 'addrinuse', 'addrnotavail', 'afnosupport', 'again', 'already', 'badf', 'badmsg', 'busy', 'canceled',
              'child', 'connaborted', 'connrefused', 'connreset', 'deadlk', 'destaddrreq', 'dom', 'dquot', 'exist', 'fault', 'fbig',
              'hostunreach', 'idrm', 'ilseq', 'inprogress', 'intr', 'inval', 'io', 'isconn', 'isdir', 'loop', 'mfile', 'mlink', 'msgsize',
              'multihop', 'nametoolong', 'netdown', 'netreset', 'netunreach', 'nfile', 'nobufs', 'nodev', 'noent', 'noexec', 'nolck', 'nolink',
              'nomem', 'nomsg', 'noprotoopt', 'nospc', 'nosys', 'notconn', 'notdir', 'notempty', 'notrecoverable', 'notsock', 'notsup',
              'notty', 'nxio', 'overflow', 'ownerdead', 'perm', 'pipe', 'proto', 'protonosupport', 'prototype', 'range', 'rofs', 'spipe',
              'srch', 'stale', 'timedout', 'txtbsy', 'xdev', 'notcapable']
WASI_NUM = {n: i for i, n in enumerate(WASI_ERRNO)}
_special = {'E2BIG': '2big', 'EWOULDBLOCK': 'again', 'EOPNOTSUPP': 'notsup', 'ENOTSUP': 'notsup', 'EDEADLOCK': 'deadlk'}


def wasi_errno_of(host_errno):
    """Independent POSIX -> WASI errno translation (by name, from the WASI specification's list)."""
    if host_errno == 0:
        return 0
    name = _errno.errorcode.get(host_errno)
    if name is None:
        return None
    if name in _special:
        return WASI_NUM[_special[name]]
    return WASI_NUM.get(name[1:].lower())


def defined_imports():
    """(namespace, name) pairs that wasi.c of the working tree defines."""
    src = open(os.path.join(env.REPO, 'wasi', 'wasi.c')).read()
    out = set()
    for kind, name in re.findall(r'WASI_(UNSTABLE_|PREVIEW1_|)IMPORT\(\s*\w+\s*,\s*(\w+)\s*,', src):
        if kind in ('', 'UNSTABLE_'):
            out.add(('wasi_unstable', name))
        if kind in ('', 'PREVIEW1_'):
            out.add(('wasi_snapshot_preview1', name))
    return out


LOGCNT, DONECNT, LOGBASE = 0x100, 0x104, 0x1000


def trampoline(shared=False, extra=None, pages=4):
    """Module importing every WASI function wasi.c defines (both namespaces) and exporting one trampoline each."""
    m = Module()
    names = []
    for ns, name in sorted(defined_imports()):
        if name not in SIGS:
            continue
        res = [] if name == 'proc_exit' else [I32]
        m.import_func(ns, name, SIGS[name], res)
        names.append((ns, name))
    spawn = m.import_func('wasi', 'thread-spawn', [I32], [I32])
    if shared:
        m.mems.append((pages, pages, True))
    else:
        m.mems.append((pages, None, False))
    m.exports.append(('memory', 'memory', 0))
    for i, (ns, name) in enumerate(names):
        ps = SIGS[name]
        res = [] if name == 'proc_exit' else [I32]
        body = [('local.get', j) for j in range(len(ps))] + [('call', i)]
        m.add_func(ps, res, [], body, export=('p1_' if ns.endswith('preview1') else 'un_') + name)
    m.add_func([I32], [I32], [], [('local.get', 0), ('call', spawn)], export='thread_spawn')
    if shared:
        # wasi_thread_start(tid, arg): atomically append (tid, arg) to a log in shared memory, then bump the done counter
        body = [('i32.const', LOGCNT), ('i32.const', 1), ('i32.atomic.rmw.add', 2, 0), ('i32.const', 8), ('i32.mul',), ('local.set', 2),
                ('local.get', 2), ('local.get', 0), ('i32.atomic.store', 2, LOGBASE),
                ('local.get', 2), ('local.get', 1), ('i32.atomic.store', 2, LOGBASE + 4),
                ('i32.const', DONECNT), ('i32.const', 1), ('i32.atomic.rmw.add', 2, 0), ('drop',)]
        m.add_func([I32, I32], [], [(1, I32)], body, export='wasi_thread_start')
    if extra:
        extra(m)
    return m


def build_driver(w2c2, d, mod, flags, name='tramp', cc='gcc', extra_src=(), defs=()):
    """Translate the trampoline module, generate the WASI driver, compile with wasi.c. Returns (exe, plan)."""
    plan = e2e.Plan(mod)
    b = mod.encode()
    t = e2e.translate(w2c2, b, d, name)
    if t.rc != 0:
        raise env.HarnessError('trampoline translation failed: %s' % t.err[-500:])
    drv = os.path.join(d, 'driver.c')
    with open(drv, 'w') as f:
        f.write(e2e.gen_driver(plan, t.name, name + '.h', wasi=True))
    srcs = [os.path.join(d, x) for x in t.files if x.endswith('.c')] + [drv, os.path.join(env.REPO, 'wasi', 'wasi.c')] + list(extra_src)
    futex = [os.path.join(env.REPO, 'futex', f) for f in ('futex.c', 'list.c', 'map.c')]
    exe = os.path.join(d, 'wprog')
    r = env.run([cc] + list(flags) + ['-w'] + env.WASI_DEFS + list(defs) + ['-I', e2e.base_include(), '-I', os.path.join(env.REPO, 'wasi'),
                '-I', os.path.join(env.REPO, 'futex'), '-I', d] + srcs + futex + ['-o', exe, '-lpthread', '-lm'], cwd=d, timeout=600)
    if r.rc != 0:
        raise env.HarnessError('wasi driver build failed: %s' % r.err[-3000:])
    return exe, plan


def hexs(b):
    if isinstance(b, str):
        b = b.encode()
    return b.hex() if b else '-'


class Guest:
    """Script builder + model of the guest's linear memory (first `size` bytes are tracked exactly)."""

    def __init__(self, plan, size=65536 * 2, abi='p1'):
        self.plan = plan
        self.mem = bytearray(size)
        self.lines = []
        self.kinds = []  # per output line: (kind, payload)
        self.abi = abi

    def emit(self, line, kind, payload=None):
        self.lines.append(line)
        self.kinds.append((kind, payload))
        return len(self.kinds) - 1

    def instantiate(self, args=(), envs=(), preopens=(), native=()):
        """native: indices of pre-opens that the embedder registers with a native directory descriptor of its own (instead of -1)"""
        self.emit('I 0', 'inst')
        self.emit('A ' + ' '.join(hexs(a) for a in args) if args else 'A', 'args')
        self.emit('E ' + ' '.join(hexs(a) for a in envs) if envs else 'E', 'env')
        self.emit('W', 'init')
        for i, p in enumerate(preopens):
            self.emit('D ' + hexs(p) + (' native' if i in native else ''), 'preopen', p)

    def poke(self, addr, data):
        self.mem[addr:addr + len(data)] = data
        if data:
            self.emit('P 0 0 %d %s' % (addr, bytes(data).hex()), 'poke')

    def poke32(self, addr, v):
        self.poke(addr, (v & 0xffffffff).to_bytes(4, 'little'))

    def call(self, name, args, payload=None, abi=None):
        a = abi or self.abi
        fk = self.plan.fk('%s_%s' % (a, name))
        return self.emit(('c 0 %d %s' % (fk, ' '.join(hex(x & 0xffffffffffffffff) for x in args))).rstrip(), 'call', payload)

    def expect_crc(self):
        return self.emit('k 0 0 0 %d' % len(self.mem), 'crc', zlib.crc32(bytes(self.mem)) & 0xffffffff)

    def dump(self, addr, n):
        return self.emit('w 0 0 %d %d' % (addr, n), 'dump', (addr, n))

    def script(self):
        return '\n'.join(self.lines) + '\n'


def run_script(exe, d, script, tag='s', env_extra=None, stdin=None, timeout=120, cwd=None):
    sp = os.path.join(d, tag + '.txt')
    lp = os.path.join(d, tag + '.log')
    with open(sp, 'w') as f:
        f.write(script)
    e = dict(env.SAN_ENV)
    if env_extra:
        e.update(env_extra)
    r = env.run([exe, sp, lp], cwd=cwd or d, env=e, timeout=timeout, stdin=stdin, text=False)
    out = open(lp, errors='replace').read().splitlines() if os.path.exists(lp) else []
    return r, out


def call_result(line):
    """'12 c 5 0x.. -> i32:0x1c' -> int or 'trap:...'"""
    if ' -> ' not in line:
        return None
    res = line.split(' -> ')[1]
    if ':' in res and not res.startswith('trap'):
        return int(res.split(':')[1], 16)
    return res
