"""Run generated program modules on both executors and compare (shared by C01, C02, C03, C11)."""
import os, shutil
from . import env, e2e, gen, diff, wasm
from .wasm import I32, I64


def program_script(c, plan, rnd, vectors=8, inst=0):
    lines = ['I %d' % inst]
    steps = {}
    step = 1
    for name, wp, wr, inner in c.export_wrappers:
        for v in range(vectors):
            args = ' '.join(hex(rnd.choice(gen.B32 if p == I32 else gen.B64) if rnd.random() < 0.8 else
                                rnd.getrandbits(32 if p == I32 else 64)) for p in wp)
            step += 1
            steps[step] = {'name': name, 'scratch_follows': True}
            lines.append(('c %d %d %s' % (inst, plan.fk(name), args)).rstrip())
            lines.append('c %d %d' % (inst, plan.fk('scratch')))
            lines.append('c %d %d' % (inst, plan.fk('dump')))
            lines.append('t')
            step += 3
            if c.has_mem:
                lines.append('m %d 0' % inst)
                step += 1
    return '\n'.join(lines) + '\n', steps


OPT_ROTATION = [[], ['-p'], [], ['-m'], ['-p', '-g'], [], ['-f', '3'], ['-p', '-m']]


def opts_for(k):
    """Translator options used for module #k in the differential checks: semantics must not depend on them."""
    return OPT_ROTATION[k % len(OPT_ROTATION)]


class ProgResult:
    pass


def run_program(w2c2, seed_tuple, profile, d, builds, n_funcs=10, vectors=8, memory=True, opts=(), n_globals=4):
    """Generate module #seed, run reference and each C build. builds: list of (tag, cc, cflags, cdefs, run_env)."""
    rnd = env.rng(*seed_tuple)
    c = gen.build_program_module(rnd, profile, n_funcs=n_funcs, memory=memory, n_globals=n_globals)
    kk = seed_tuple[-1] if isinstance(seed_tuple[-1], int) else 0
    b = c.mod.encode(wasm.rot_enc(kk))
    plan = e2e.Plan(c.mod)
    script, steps = program_script(c, plan, rnd, vectors)
    res = ProgResult()
    res.wasm, res.script, res.steps, res.plan, res.ctx = b, script, steps, plan, c
    res.ref_stage, res.ref, _ = e2e.run_ref(b, plan, script, d)
    res.builds = {}
    if res.ref_stage != 'ok':
        return res
    for tag, cc, cflags, cdefs, renv in builds:
        bd = os.path.join(d, tag)
        st, out, r = e2e.build_and_run(w2c2, b, plan, script, bd, opts=opts, cc=cc, cflags=cflags, cdefs=cdefs, run_env=renv)
        res.builds[tag] = (st, out)
        if st == 'ok':
            res.builds[tag] = (st, out, diff.compare(res.ref, out, steps))
        else:
            res.builds[tag] = (st, out, [])
    return res


def first_divergent_call(res, tag):
    """Describe the first mismatching step for a violation report."""
    st, out, diffs = res.builds[tag]
    if not diffs:
        return ''
    step, kind, a, b, i = diffs[0]
    name = res.steps.get(step, {}).get('name', '?')
    return 'step %d (%s) %s: reference "%s" vs compiled "%s"' % (step, name, kind, a, b)
