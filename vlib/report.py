"""Verdicts, evidence files, known-findings matching, replay bundles."""
import os, sys, json, time, hashlib, fnmatch, shutil
from . import env

KNOWN_FILE = os.path.join(env.VERIF, 'known_findings.txt')


def load_known():
    """known: property=<id> key=<key> <what>   |   fixed: property=<id> <commit> <what>"""
    known = []
    if os.path.exists(KNOWN_FILE):
        for line in open(KNOWN_FILE):
            line = line.strip()
            if not line or line.startswith('#'):
                continue
            if line.startswith('known:'):
                parts = line[len('known:'):].split(None, 2)
                prop = parts[0].split('=', 1)[1]
                key = parts[1].split('=', 1)[1]
                what = parts[2] if len(parts) > 2 else ''
                known.append((prop, key, what))
    return known


class Check:
    def __init__(self, pid, tier, level='exploration', rule=''):
        self.pid = pid
        self.tier = tier
        self.level = level
        self.rule = rule
        self.t0 = time.time()
        self.evaluations = 0
        self._distinct = set()
        self.samples = []
        self.obs = {}
        self.assumptions = []
        self.violations = []  # (key, what, replay)
        self.known_hits = {}  # key -> (what, count)
        self.inconclusive_msgs = []
        self.known = [(k, w) for p, k, w in load_known() if p == pid]
        self.max_report = 8
        self.exhaustive = None
        sys.stdout.reconfigure(line_buffering=True)

    # ---- coverage accounting
    def ev(self, n=1):
        self.evaluations += n

    def distinct(self, item):
        if not isinstance(item, (str, bytes, int, tuple)):
            item = json.dumps(item, sort_keys=True, default=str)
        if isinstance(item, str):
            item = item.encode()
        if isinstance(item, bytes):
            item = hashlib.blake2b(item, digest_size=10).digest()
        self._distinct.add(item)

    def sample(self, s, cap=6):
        if len(self.samples) < cap:
            self.samples.append(s)

    def observe(self, key, value=1, mode='add'):
        if mode == 'add':
            self.obs[key] = self.obs.get(key, 0) + value
        elif mode == 'set':
            self.obs[key] = value
        elif mode == 'max':
            self.obs[key] = max(self.obs.get(key, value), value)
        elif mode == 'union':
            s = self.obs.setdefault(key, [])
            for v in (value if isinstance(value, (list, set, tuple)) else [value]):
                if v not in s:
                    s.append(v)

    def assume(self, text):
        if text not in self.assumptions:
            self.assumptions.append(text)

    def log(self, msg):
        print('[%s %s %6.1fs] %s' % (self.pid, self.tier, time.time() - self.t0, msg), flush=True)

    # ---- verdicts
    def inconclusive(self, msg):
        self.inconclusive_msgs.append(msg)
        self.log('INCONCLUSIVE: ' + msg)

    def violation(self, key, what, files=None):
        """Report a violation with a stable key. files: {name: bytes|str} saved as the replay bundle."""
        for kkey, kwhat in self.known:
            if key == kkey or (kkey.endswith('*') and fnmatch.fnmatchcase(key, kkey)):
                if kkey not in self.known_hits:
                    self.known_hits[kkey] = [kwhat, 0, what]
                self.known_hits[kkey][1] += 1
                return False
        # unlisted => real violation
        same = [v for v in self.violations if v[0] == key]
        if len(same) >= 3:
            self.violations.append((key, what, same[0][2]))
            return True
        d = os.path.join(env.VERIF, 'replays', self.pid,
                         '%s-%s' % (hashlib.sha1(key.encode()).hexdigest()[:8], len(same)))
        if os.path.isdir(d):
            shutil.rmtree(d, ignore_errors=True)
        os.makedirs(d, exist_ok=True)
        meta = {'property': self.pid, 'key': key, 'what': what, 'seed': env.SEED, 'tier': self.tier,
                'repo': env.REPO}
        with open(os.path.join(d, 'violation.json'), 'w') as f:
            json.dump(meta, f, indent=1)
        for name, content in (files or {}).items():
            p = os.path.join(d, name)
            os.makedirs(os.path.dirname(p), exist_ok=True)
            if isinstance(content, str):
                content = content.encode('utf-8', 'replace')
            with open(p, 'wb') as f:
                f.write(content)
        self.violations.append((key, what, d))
        if len(self.violations) <= self.max_report:
            self.log('violation key=%s: %s' % (key, what[:400]))
        return True

    def finish(self, extra_cov=None):
        wall = time.time() - self.t0
        cov = {
            'evaluations': self.evaluations,
            'distinct_nontrivial': len(self._distinct),
            'rule': self.rule,
            'samples': self.samples[:8] or ['(none)'],
        }
        if self.exhaustive is not None:
            cov['exhaustive'] = self.exhaustive
        cov['observed'] = self.obs
        cov['known_findings_hit'] = {k: {'count': v[1], 'example': v[2][:300]} for k, v in self.known_hits.items()}
        cov['violation_keys'] = sorted(set(v[0] for v in self.violations))[:50]
        if self.inconclusive_msgs:
            cov['inconclusive'] = self.inconclusive_msgs[:10]
        if extra_cov:
            cov.update(extra_cov)
        ev = {
            'property_id': self.pid, 'tier': self.tier, 'seed': env.SEED, 'level': self.level,
            'coverage': cov, 'assumptions': self.assumptions, 'wall_s': round(wall, 2),
            'violations': len(set(v[0] for v in self.violations)),
        }
        if not os.environ.get('W2C2_REPO'):  # self-tests against scratch copies never touch the evidence
            os.makedirs(os.path.join(env.VERIF, 'evidence'), exist_ok=True)
            tmp = os.path.join(env.VERIF, 'evidence', '.%s.json.tmp' % self.pid)
            with open(tmp, 'w') as f:
                json.dump(ev, f, indent=1, default=str)
            os.replace(tmp, os.path.join(env.VERIF, 'evidence', '%s.json' % self.pid))
        for k, v in self.known_hits.items():
            print('KNOWN-FINDING: property=%s %s [key=%s, seen %d times; e.g. %s]' % (self.pid, v[0], k, v[1], v[2][:200]))
        seen = set()
        for key, what, d in self.violations:
            if key in seen:
                continue
            seen.add(key)
            print('VIOLATION property=%s replay=%s key=%s %s' % (self.pid, d, key, what[:300].replace('\n', ' ')))
        self.log('evaluations=%d distinct=%d violations=%d known=%d wall=%.1fs' % (
            self.evaluations, len(self._distinct), len(seen), len(self.known_hits), wall))
        if seen:
            return 1
        if self.inconclusive_msgs:
            return 2
        if self.evaluations < 1 or len(self._distinct) < 2:
            self.log('INCONCLUSIVE: observed too little')
            return 2
        return 0
